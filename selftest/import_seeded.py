"""Copy a sub-agent's deliverables (/tmp/out/<letter>-<PROP>/{patch.diff,demo.py,notes.json}) into seeded/<PROP>-<letter>/.

usage: python selftest/import_seeded.py <letter> [PROP ...]
"""
import json
import os
import shutil
import sys

VERIF = os.path.dirname(os.path.dirname(os.path.abspath(__file__)))


def main():
    letter = sys.argv[1]
    props = sys.argv[2:] or "C01 C03 C04 C08 C09 C14 C15 C18".split()
    for p in props:
        src = "/tmp/out/%s-%s" % (letter, p)
        if not os.path.exists(os.path.join(src, "patch.diff")):
            print("missing", src)
            continue
        dst = os.path.join(VERIF, "seeded", "%s-%s" % (p, letter))
        os.makedirs(dst, exist_ok=True)
        shutil.copy(os.path.join(src, "patch.diff"), os.path.join(dst, "patch.diff"))
        shutil.copy(os.path.join(src, "demo.py"), os.path.join(dst, "demo.py"))
        notes = json.load(open(os.path.join(src, "notes.json")))
        meta = dict(id="%s-%s" % (p, letter), property=p, needs=notes.get("needs", ""), demo="demo.py",
                    source="sub-agent given only the property text and a scratch worktree",
                    files=notes.get("files", []), summary=notes.get("summary", ""))
        with open(os.path.join(dst, "meta.json"), "w") as f:
            f.write(json.dumps(meta, indent=1))
        print("imported", dst)


if __name__ == "__main__":
    main()
