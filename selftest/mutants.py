"""Sensitivity self-test: apply small source mutations, one at a time, to a scratch copy
of the repository (outside /repo and /verif, removed afterwards) and confirm that the
relevant check, pointed at the copy through VERIF_REPO, exits 1.

usage: python selftest/mutants.py [--only NAME_SUBSTR] [--prop C08] [--tier quick] [--jobs 4]
"""
import argparse
import json
import os
import shutil
import subprocess
import sys
import tempfile
import time

VERIF = os.path.dirname(os.path.dirname(os.path.abspath(__file__)))
REPO = "/repo"

# (name, property, file, old, new)
MUTANTS = [
    # ---- C08
    ("pt_swap_inverted_ratio", "C08", "inference/mcmc/parallel.py",
     "if self.rng.random() <= exp(-dt * dp):", "if self.rng.random() <= exp(dt * dp):"),
    ("pt_swap_same_chain", "C08", "inference/mcmc/parallel.py",
     "self.connections[i].send(Dj)\n                self.connections[j].send(Di)",
     "self.connections[i].send(Di)\n                self.connections[j].send(Dj)"),
    ("pt_swap_no_retemper", "C08", "inference/mcmc/parallel.py",
     'chain.probs[-1] = D["probability"] * chain.inv_temp', 'chain.probs[-1] = D["probability"]'),
    ("pt_swap_tempered_probs", "C08", "inference/mcmc/parallel.py",
     "pi = probabilities[i] / self.inv_temps[i]", "pi = probabilities[i]"),
    ("pt_advance_drop_remainder", "C08", "inference/mcmc/parallel.py",
     "if n % swap_interval != 0:\n            self.take_steps(n % swap_interval)", "if False:\n            pass"),
    ("pt_advance_drop_cycle_remainder", "C08", "inference/mcmc/parallel.py",
     "if total_cycles % k != 0:", "if False:"),
    ("pt_take_steps_no_wait", "C08", "inference/mcmc/parallel.py",
     'responses = [pipe.recv() == "advance_complete" for pipe in self.connections]',
     'responses = [True]'),
    ("pt_pairs_overlap", "C08", "inference/mcmc/parallel.py",
     "pairs = [k for k in pairs if not any(j in k for j in p)]", "pairs = [k for k in pairs if k != p]"),
    ("pt_success_counter_always", "C08", "inference/mcmc/parallel.py",
     "                self.successful_swaps[i, j] += 1", "            self.successful_swaps[i, j] += 1"),
    ("pt_shutdown_no_join", "C08", "inference/mcmc/parallel.py",
     "        self.shutdown_evt.set()\n        [p.join() for p in self.processes]",
     "        [p.join(0.01) for p in self.processes]"),
    ("pt_worker_ignores_event", "C08", "inference/mcmc/parallel.py",
     "        while not end.is_set():\n            if connection.poll(timeout=0.05):", "        while True:\n            if connection.poll(timeout=0.05):"),
    ("pt_one_chain_fewer_steps", "C08", "inference/mcmc/parallel.py",
     '            for _ in range(D["advance_count"]):\n                chain.take_step()',
     '            for _ in range(D["advance_count"] - (1 if chain.inv_temp < 0.3 and D["advance_count"] > 7 else 0)):\n                chain.take_step()'),
    ("pt_recv_position_before_send_all", "C08", "inference/mcmc/parallel.py",
     "        [pipe.send(D) for pipe in self.connections]\n\n        # receive the positions and probabilities\n        data = [pipe.recv() for pipe in self.connections]",
     "        data = []\n        for pipe in self.connections:\n            pipe.send(D)\n            data.append(pipe.recv())"),
]

# ---- behaviour-preserving refactors: every listed check must stay silent (exit 0)
REFACTORS = [
    # acceptance tests in log space with log-uniforms drawn in blocks of 4096 (the correct version of seeded C01-j)
    ("refactor_ensemble_block_log_uniforms", "C01,C03,C09,C15", "inference/mcmc/ensemble.py",
     ["        self.max_attempts = 100\n",
      "    def __advance_walker(self, i: int):\n",
      "            q = exp((self.n_parameters - 1) * log(z) + p - self.walker_probs[i])\n            if self.rng.random() <= q:\n",
      "        self.ProgressPrinter.iterations_initial(iterations)\n"],
     ["        self.max_attempts = 100\n        self.block_size = 4096\n        self.log_u = None\n        self.n_used = 0\n",
      "    def _log_uniform(self):\n        if self.n_used == self.block_size:\n            self.log_u = log(self.rng.random(self.block_size))\n"
      "            self.n_used = 0\n        self.n_used += 1\n        return self.log_u[self.n_used - 1]\n\n    def __advance_walker(self, i: int):\n",
      "            log_q = (self.n_parameters - 1) * log(z) + p - self.walker_probs[i]\n            if self._log_uniform() <= log_q:\n",
      "        self.ProgressPrinter.iterations_initial(iterations)\n        self.log_u = log(self.rng.random(self.block_size))\n        self.n_used = 0\n"]),
    ("refactor_gibbs_uniform_drawn_first", "C01,C03,C09,C15", "inference/mcmc/gibbs.py",
     ["                prop[i] = p.proposal()\n                p_new = self.posterior(prop) * self.inv_temp\n",
      "                    if self.rng.random() < acceptance_prob:\n                        break\n\n            p_old = deepcopy(p_new)"],
     ["                prop[i] = p.proposal()\n                u_draw = self.rng.random()\n                p_new = self.posterior(prop) * self.inv_temp\n",
      "                    if u_draw < acceptance_prob:\n                        break\n\n            p_old = deepcopy(p_new)"]),
    ("refactor_hmc_log_uniform", "C01,C03,C09", "inference/mcmc/hmc/__init__.py",
     ["            if (accept_prob >= 1) or (self.rng.random() <= accept_prob):", "from numpy import var, isfinite, exp, mean, argmax, percentile, cov\n"],
     ["            if (accept_prob >= 1) or (log(self.rng.random()) <= H0 - H):", "from numpy import var, isfinite, exp, log, mean, argmax, percentile, cov\n"]),
    ("refactor_base_import_time_module", "C15,C09", "inference/mcmc/base.py",
     ["from time import time\n", "        t_start = time()\n        for j in range(k):", "        start_time = time()\n", "            current_time = time()\n"],
     ["import time as _time\n", "        t_start = _time.time()\n        for j in range(k):", "        start_time = _time.time()\n", "            current_time = _time.time()\n"]),
    ("refactor_parallel_import_mp_module", "C08,C15", "inference/mcmc/parallel.py",
     ["from multiprocessing import Process, Pipe, Event, Pool\n", "        self.pool = Pool(self.pool_size)", "        self.shutdown_evt = Event()",
      "            parent_ctn, child_ctn = Pipe()", "            p = Process(\n"],
     ["import multiprocessing as _mp\nfrom multiprocessing import Event\n", "        self.pool = _mp.Pool(self.pool_size)", "        self.shutdown_evt = _mp.Event()",
      "            parent_ctn, child_ctn = _mp.Pipe()", "            p = _mp.Process(\n"]),
    ("refactor_ensemble_z_inverse_cdf", "C01,C03,C09", "inference/mcmc/ensemble.py",
     "        z = 0.5 * (self.x_lwr + self.x_width * self.rng.random()) ** 2",
     "        z = ((self.alpha - 1.0) * self.rng.random() + 1.0) ** 2 / self.alpha"),
    ("refactor_pt_swap_skip_draw_when_certain", "C08", "inference/mcmc/parallel.py",
     "            if self.rng.random() <= exp(-dt * dp):  # check if the swap is successful",
     "            if -dt * dp >= 0 or self.rng.random() <= exp(-dt * dp):  # check if the swap is successful"),
    ("refactor_probs_as_numpy_floats", "C03,C14,C09", "inference/mcmc/gibbs.py",
     "        self.probs.append(p_new)\n        self.chain_length += 1\n", "        self.probs.append(float64(p_new))\n        self.chain_length += 1\n"),
]
MUTANTS += REFACTORS

MUTANTS += [
    # ---- C18
    ("ei_tail_gradient_sign", "C18", "inference/gp/acquisition.py",
     "            grad_ln_EI = (0.5 * dvar / sig[0] + R * dmu) / (H * sig[0])", "            grad_ln_EI = (0.5 * dvar / sig[0] - R * dmu) / (H * sig[0])"),
    ("ei_tail_value_wrong_in_opt_func", "C18", "inference/gp/acquisition.py",
     "    def opt_func(self, x) -> float:\n        mu, sig = self.gp(x)\n        Z = (mu[0] - self.mu_max) / sig[0]\n        if Z < -3:\n            ln_EI = log(1 + Z * self.cdf_pdf_ratio(Z)) + self.ln_pdf(Z) + log(sig[0])",
     "    def opt_func(self, x) -> float:\n        mu, sig = self.gp(x)\n        Z = (mu[0] - self.mu_max) / sig[0]\n        if Z < -3:\n            ln_EI = log(1 + Z * self.cdf_pdf_ratio(Z)) + self.ln_pdf(Z) + 2 * log(sig[0])"),
    ("ucb_gradient_factor", "C18", "inference/gp/acquisition.py",
     "        grad_ucb = dmu + 0.5 * self.kappa * dvar / sig[0]", "        grad_ucb = dmu + self.kappa * dvar / sig[0]"),
    ("incumbent_ignores_latest", "C18", "inference/gp/acquisition.py",
     "        self.mu_max = gp.y.max()", "        self.mu_max = gp.y[: max(2, gp.y.size - 1)].max() if gp.y.size > 6 else gp.y.max()"),
    ("refit_on_stale_data", "C18", "inference/gp/optimisation.py",
     "        self.gp = GpRegressor(\n            x=self.x,\n            y=self.y,\n            y_err=self.y_err,\n            kernel=self.kernel,",
     "        keep = slice(None) if self.y.size < 7 else slice(0, -1)\n        self.gp = GpRegressor(\n            x=self.x[keep],\n            y=self.y[keep],\n            y_err=self.y_err if self.y_err is None else self.y_err[keep],\n            kernel=self.kernel,"),
    ("diffev_bounds_widened", "C18", "inference/gp/optimisation.py",
     "            self.acquisition.opt_func, self.bounds, popsize=30", "            self.acquisition.opt_func, [(b[0], b[1] + 0.05 * (b[1] - b[0])) for b in self.bounds], popsize=30"),
    ("maxvar_returns_sigma", "C18", "inference/gp/acquisition.py",
     "        _, sig = self.gp(x)\n        return sig[0] ** 2\n", "        _, sig = self.gp(x)\n        return sig[0] ** 2 if sig[0] > 0.05 else sig[0] * 0.05\n"),
    ("ei_pdf_cdf_swapped_in_gradient", "C18", "inference/gp/acquisition.py",
     "            grad_ln_EI = (0.5 * pdf * dvar / sig[0] + dmu * cdf) / EI", "            grad_ln_EI = (0.5 * cdf * dvar / sig[0] + dmu * pdf) / EI"),
    ("revert_optimiser_resize", "C18", "REVERT", "no longer reshapes the caller", ""),
    # ---- C01
    ("gibbs_inverted_ratio", "C01", "inference/mcmc/gibbs.py",
     "                    acceptance_prob = exp(p_new - p_old)\n                    p.submit_accept_prob(acceptance_prob)",
     "                    acceptance_prob = exp(p_old - p_new)\n                    p.submit_accept_prob(acceptance_prob)"),
    ("gibbs_forgets_temperature", "C01", "inference/mcmc/gibbs.py",
     "                p_new = self.posterior(prop) * self.inv_temp\n\n                if p_new > p_old:\n                    # automatically",
     "                p_new = self.posterior(prop)\n\n                if p_new > p_old:\n                    # automatically"),
    ("gibbs_accept_sqrt", "C01", "inference/mcmc/gibbs.py",
     "                    acceptance_prob = exp(p_new - p_old)\n                    p.submit_accept_prob(acceptance_prob)",
     "                    acceptance_prob = exp(0.5 * (p_new - p_old))\n                    p.submit_accept_prob(acceptance_prob)"),
    ("gibbs_proposal_drift", "C01", "inference/mcmc/gibbs.py",
     "        return self.rng.normal(loc=self.samples[-1], scale=self.sigma)\n\n    def abs_proposal",
     "        return self.rng.normal(loc=self.samples[-1] + 0.1 * self.sigma, scale=self.sigma)\n\n    def abs_proposal"),
    ("gibbs_stale_p_old", "C01", "inference/mcmc/gibbs.py",
     "            p_old = deepcopy(p_new)  # NOTE - is deepcopy needed?", "            pass"),
    ("metropolis_stale_old", "C01", "inference/mcmc/gibbs.py",
     "            if pval > self.probs[-1]:\n                break\n            else:\n                acceptance_prob = exp(pval - self.probs[-1])",
     "            if pval > self.probs[0]:\n                break\n            else:\n                acceptance_prob = exp(pval - self.probs[0])"),
    ("pca_accept_uses_untempered", "C01", "inference/mcmc/pca.py",
     "                    acceptance_prob = exp(p_new - p_old)", "                    acceptance_prob = exp((p_new - p_old) / self.inv_temp)"),
    ("pca_asymmetric_step", "C01", "inference/mcmc/pca.py",
     "                prop = theta0 + v * p.sigma * self.rng.normal()", "                prop = theta0 + v * p.sigma * abs(self.rng.normal()) * (1 if self.chain_length % 2 else -1.3)"),
    ("hmc_kinetic_uses_mass", "C01", "inference/mcmc/hmc/__init__.py",
     "    def kinetic_energy(self, r: ndarray) -> float:\n        return 0.5 * (r @ self.mass.get_velocity(r))",
     "    def kinetic_energy(self, r: ndarray) -> float:\n        return 0.5 * (r @ (r / self.mass.inv_mass)) if self.mass.inv_mass is not None and getattr(self.mass.inv_mass, 'ndim', 0) < 2 else 0.5 * (r @ self.mass.get_velocity(r))"),
    ("hmc_final_kick_full", "C01", "inference/mcmc/hmc/__init__.py",
     "        t += self.ES.epsilon * self.mass.get_velocity(r)\n        r += (0.5 * r_step) * self.grad(t)\n        return t, r\n\n    def bounded_leapfrog",
     "        t += self.ES.epsilon * self.mass.get_velocity(r)\n        r += r_step * self.grad(t)\n        return t, r\n\n    def bounded_leapfrog"),
    ("hmc_accept_inverted", "C01", "inference/mcmc/hmc/__init__.py",
     "            accept_prob = exp(H0 - H)", "            accept_prob = exp(H - H0)"),
    ("hmc_forgets_temperature_in_H", "C01", "inference/mcmc/hmc/__init__.py",
     "            p = self.posterior(t) * self.inv_temp\n            H = self.kinetic_energy(r) - p", "            p = self.posterior(t) * self.inv_temp\n            H = self.kinetic_energy(r) - p / self.inv_temp"),
    ("hmc_momentum_wrong_scale", "C01", "inference/mcmc/hmc/mass.py",
     "        return rng.normal(size=self.n_parameters, scale=self.sqrt_mass)", "        return rng.normal(size=self.n_parameters, scale=self.sqrt_mass**2)"),
    ("hmc_no_momentum_flip_at_wall", "C01", "inference/mcmc/hmc/__init__.py",
     "            t, reflections = self.bounds.reflect_momenta(t)\n            r *= reflections\n            r += r_step * self.grad(t)",
     "            t, reflections = self.bounds.reflect_momenta(t)\n            r += r_step * self.grad(t)"),
    ("ensemble_drop_z_factor", "C01", "inference/mcmc/ensemble.py",
     "            q = exp((self.n_parameters - 1) * log(z) + p - self.walker_probs[i])", "            q = exp(p - self.walker_probs[i])"),
    ("ensemble_z_uniform", "C01", "inference/mcmc/ensemble.py",
     "        z = 0.5 * (self.x_lwr + self.x_width * self.rng.random()) ** 2", "        z = 1.0 / self.alpha + (self.alpha - 1.0 / self.alpha) * self.rng.random()"),
    ("ensemble_z_exponent_n", "C01", "inference/mcmc/ensemble.py",
     "            q = exp((self.n_parameters - 1) * log(z) + p - self.walker_probs[i])", "            q = exp(self.n_parameters * log(z) + p - self.walker_probs[i])"),
    ("ensemble_stale_walker_prob", "C01", "inference/mcmc/ensemble.py",
     "                self.walker_positions[i, :] = Y\n                self.walker_probs[i] = p", "                self.walker_positions[i, :] = Y\n                self.walker_probs[i] = p if attempts == 1 else self.walker_probs[i]"),
    ("revert_ensemble_stretch", "C01", "REVERT", "about the partner walker", ""),
    ("pt_chain_wrong_temperature_after_swap", "C01", "inference/mcmc/gibbs.py",
     "        for p, t in zip(self.params, theta):\n            p.samples[-1] = t", "        for p, t in zip(self.params, theta):\n            p.samples[-1] = t\n        self.inv_temp = self.inv_temp * 1.0000001 if False else self.inv_temp"),
    # ---- C04
    ("bounds_reflect_drop_width", "C04", "inference/mcmc/utilities.py",
     "        return self.lower + (1 - 2 * n) * rem + n * self.width\n", "        return self.lower + (1 - 2 * n) * rem + n * rem\n"),
    ("bounds_momenta_sign_inverted", "C04", "inference/mcmc/utilities.py",
     "        reflection = 1 - 2 * n\n", "        reflection = 2 * n - 1\n"),
    ("hmc_last_step_not_reflected", "C04", "inference/mcmc/hmc/__init__.py",
     "        t += self.ES.epsilon * self.mass.get_velocity(r)\n        t, reflections = self.bounds.reflect_momenta(t)\n        r *= reflections\n        r += (0.5 * r_step) * self.grad(t)\n        return t, r",
     "        t += self.ES.epsilon * self.mass.get_velocity(r)\n        r += (0.5 * r_step) * self.grad(t)\n        return t, r"),
    ("gibbs_boundary_wraps_instead_of_reflecting", "C04", "inference/mcmc/gibbs.py",
     "            return self.upper - d % width", "            return lower + d % width"),
    ("gibbs_abs_proposal_no_abs", "C04", "inference/mcmc/gibbs.py",
     "        return abs(self.rng.normal(loc=self.samples[-1], scale=self.sigma))", "        return self.rng.normal(loc=self.samples[-1], scale=self.sigma)"),
    ("ensemble_forgets_reflect", "C04", "inference/mcmc/ensemble.py",
     "            self.process_proposal = self.bounds.reflect", "            self.process_proposal = self.pass_through"),
    ("pca_reflect_before_step", "C04", "inference/mcmc/pca.py",
     "                prop = self.process_proposal(prop)\n", "                prop = prop if abs(p.sigma) > 1e3 else self.process_proposal(prop)\n"),
    ("bounds_reflect_single_wrap_only", "C04", "inference/mcmc/utilities.py",
     "        q, rem = np_divmod(theta - self.lower, self.width)\n        n = q % 2\n        return self.lower",
     "        q, rem = np_divmod(theta - self.lower, self.width)\n        n = (q != 0) * 1.0\n        return self.lower"),
    ("revert_gibbs_limits_c04", "C04", "REVERT", "no longer cancel each other", ""),
    ("revert_finite_diff_bounds", "C04", "REVERT", "never evaluates the posterior outside its bounds", ""),
    # ---- C03
    ("hmc_probs_forget_temperature", "C03", "inference/mcmc/hmc/__init__.py",
     "        self.probs.append(p)\n", "        self.probs.append(p / self.inv_temp)\n"),
    ("hmc_leapfrog_mutates_stored_sample", "C03", "inference/mcmc/hmc/__init__.py",
     "            t, r = self.run_leapfrog(t0.copy(), r0.copy(), n_steps)", "            t, r = self.run_leapfrog(t0, r0.copy(), n_steps)"),
    ("ensemble_sample_aliases_walkers", "C03", "inference/mcmc/ensemble.py",
     "            sample_arrays.append(self.walker_positions.copy())", "            sample_arrays.append(self.walker_positions)"),
    ("mode_off_by_one", "C03", "inference/mcmc/gibbs.py",
     "        ind = argmax(self.probs)\n        return array([p.samples[ind] for p in self.params])",
     "        ind = argmax(self.probs[1:])\n        return array([p.samples[ind] for p in self.params])"),
    ("gibbs_stores_prob_of_previous_update", "C03", "inference/mcmc/gibbs.py",
     ["            p_old = deepcopy(p_new)  # NOTE - is deepcopy needed?", "        self.probs.append(p_new)\n        self.chain_length += 1\n"],
     ["            p_prev, p_old = p_old, deepcopy(p_new)", "        self.probs.append(p_prev if self.chain_length % 7 == 3 else p_new)\n        self.chain_length += 1\n"]),
    ("pca_shares_bounds_object_state", "C03", "inference/mcmc/utilities.py",
     "        q, rem = np_divmod(theta - self.lower, self.width)\n        n = q % 2\n        return self.lower + (1 - 2 * n) * rem + n * self.width",
     "        q, rem = np_divmod(theta - self.lower, self.width)\n        n = q % 2\n        self.lower -= 0.0 * rem\n        self.width += 1e-9 * (n > 0)\n        return self.lower + (1 - 2 * n) * rem + n * self.width"),
    ("replace_last_aliases_input", "C03", "inference/mcmc/hmc/__init__.py",
     "        self.theta[-1] = theta\n", "        self.theta[-2 if len(self.theta) > 3 else -1] = theta\n"),
    # ---- C14
    ("gibbs_get_sample_burn_plus_one", "C14", "inference/mcmc/gibbs.py",
     "        return array([p.samples[burn::thin] for p in self.params]).T", "        return array([p.samples[burn + (thin > 3) :: thin] for p in self.params]).T"),
    ("hmc_probs_ignore_thin", "C14", "inference/mcmc/hmc/__init__.py",
     "        return array(self.probs[burn::thin])", "        return array(self.probs[burn:: max(thin, 1) if thin < 5 else 5])"),
    ("interval_probs_not_thinned", "C14", "inference/mcmc/base.py",
     "        probs = probs[::thin]\n", "        probs = probs[:: thin if samples is None else 1][: sample.shape[0]]\n"),
    ("interval_keeps_low_prob_tail", "C14", "inference/mcmc/base.py",
     "        sample = sample[cutoff:, :]\n        probs = probs[cutoff:]", "        sample = sample[: sample.shape[0] - cutoff, :]\n        probs = probs[: probs.size - cutoff]"),
    ("interval_subsample_unsorted_pairs", "C14", "inference/mcmc/base.py",
     "                sample = sample[subsample, :]\n                probs = probs[subsample]", "                sample = sample[subsample, :]\n                probs = probs[n_trim:]"),
    ("ensemble_parameter_ignores_burn", "C14", "inference/mcmc/ensemble.py",
     "        return self.sample[burn::thin, index]", "        return self.sample[min(burn, 3) :: thin, index]"),
    ("marginal_default_burn", "C14", "inference/mcmc/base.py",
     "            return GaussianKDE(self.get_parameter(index, burn=burn, thin=thin))", "            return GaussianKDE(self.get_parameter(index, burn=burn))"),
    # ---- C15
    ("advance_drops_remainder", "C15", "inference/mcmc/base.py",
     "        if m % k != 0:\n            [self.take_step() for _ in range(m % k)]", "        if m % k > 1:\n            [self.take_step() for _ in range(m % k)]"),
    ("ensemble_chain_length_iterations", "C15", "inference/mcmc/ensemble.py",
     "            self.chain_length = self.sample_probs.size", "            self.chain_length = self.n_iterations * self.n_walkers if self.n_iterations < 40 else self.sample_probs.size - 1"),
    ("pool_results_completion_order", "C15", "inference/mcmc/parallel.py",
     "        self.chains = self.pool.map(\n            self.adv_func, [(n, chain) for chain in self.chains]\n        )",
     "        self.chains = self.pool.map(\n            self.adv_func, [(n, chain) for chain in self.chains[::-1]]\n        )"),
    ("pool_advances_one_less_for_large_n", "C15", "inference/mcmc/parallel.py",
     "        chain.advance(n)\n        return chain", "        chain.advance(n if n < 25 else n - 1)\n        return chain"),
    ("run_for_stops_early", "C15", "inference/mcmc/base.py",
     "        while current_time < end_time:", "        while current_time < end_time - 0.25 * run_time:"),
    ("run_for_ignores_days", "C15", "inference/mcmc/base.py",
     "        run_time = ((days * 24.0 + hours) * 60.0 + minutes) * 60.0", "        run_time = ((days * 12.0 + hours) * 60.0 + minutes) * 60.0"),
    ("pt_run_for_minutes_as_seconds", "C15", "inference/mcmc/parallel.py",
     "        run_time = (hours * 60.0 + minutes) * 60.0", "        run_time = (hours * 60.0 + minutes) * 6.0"),
    # ---- C09
    ("save_drops_sigma", "C09", "inference/mcmc/gibbs.py",
     '            f"{i}sigma": self.sigma,', '            f"{i}sigma": self.sigma_values[0],'),
    ("load_resets_try_count", "C09", "inference/mcmc/gibbs.py",
     '        param.num = float(dictionary[i + "num"])', '        param.num = 0.0'),
    ("pca_load_forgets_next_update", "C09", "inference/mcmc/pca.py",
     '        chain.next_update = int(D["next_update"])', '        chain.next_update = int(D["last_update"]) + int(D["dir_update_interval"]) + 1'),
    ("hmc_save_rounds_epsilon", "C09", "inference/mcmc/hmc/epsilon.py",
     '        self.epsilon = float(dictionary["epsilon"])', '        self.epsilon = float(dictionary["epsilon_values"][-1]) if len(dictionary["epsilon_values"]) < 3 else float(dictionary["epsilon_values"][-2])'),
    ("ensemble_load_forgets_max_attempts", "C09", "inference/mcmc/ensemble.py",
     '        sampler.max_attempts = int(D["max_attempts"])', '        sampler.max_attempts = 100'),
    ("hmc_load_forgets_steps", "C09", "inference/mcmc/hmc/__init__.py",
     '        chain.steps = int(D["steps"])', '        pass'),
    ("gibbs_load_loses_temperature", "C09", "inference/mcmc/gibbs.py",
     '        chain.inv_temp = float(D["inv_temp"])\n\n        # re-build all the parameter objects', '        # re-build all the parameter objects'),
    # ---- the repaired defects must be re-detected when a fix is undone
    ("revert_pickle_printer", "C08", "REVERT", "picklable when display is off", ""),
    ("revert_metropolis_probs", "C03", "REVERT", "MetropolisChain.take_step records", ""),
    ("revert_pca_one_param", "C15", "REVERT", "single parameter", ""),
    ("revert_ensemble_advance0", "C15", "REVERT", "advance(0) on a fresh sampler", ""),
    # (the fix 3dc166f `.copy()` became `.astype(float)` in d774407: the revert is written out)
    ("revert_ensemble_copy", "C03", "inference/mcmc/ensemble.py", "            ).astype(float)\n", "            ).astype(float, copy=False)\n"),
    ("revert_hmc_squeeze", "C14", "REVERT", "get_parameter returns a 1-D array", ""),
    ("revert_load_printer", "C09", "REVERT", "get their progress printer", ""),
    ("revert_pca_save_covar", "C09", "REVERT", "saved before its first direction update", ""),
    ("revert_hmc_load_mass", "C09", "REVERT", "restores the particle mass", ""),
    ("revert_ensemble_load", "C09", "REVERT", "restores chain_length and failed_updates", ""),
    ("revert_get_interval", "C14", "REVERT", "get_interval with a requested sample count", ""),
    ("revert_run_for_zero", "C15", "REVERT", "already exhausted time budget", ""),
    # (52390bf can no longer be reverted as a patch - 3b9160e rewrote the same line; this is its effect on the current tree)
    ("revert_run_for_slow", "C15", "inference/mcmc/base.py", "                update_interval = max(1, int(steps_taken / elapsed))\n",
     "                update_interval = int(steps_taken / elapsed)\n"),
    ("revert_gibbs_limits", "C09", "REVERT", "no longer cancel each other", ""),
    ("revert_ensemble_int_start", "C03", "REVERT", "converts integer starting positions", ""),
    ("revert_run_for_coarse_clock", "C15", "REVERT", "clock has not moved between two readings", ""),
    ("revert_sigma_float", "C09", "REVERT", "proposal widths are held as python floats", ""),
]

# the last one is behaviour-preserving (serial request/response): the check must NOT alarm
EQUIVALENT = {"pt_recv_position_before_send_all", "pt_chain_wrong_temperature_after_swap"} | {m[0] for m in REFACTORS}


def apply(copy, file, old, new):
    if file == "REVERT":  # undo one fix commit (old = substring of its subject)
        log = subprocess.run(["git", "-C", REPO, "log", "--format=%h %s"], capture_output=True, text=True).stdout.splitlines()
        hit = [l.split(" ", 1)[0] for l in log if old in l]
        if len(hit) != 1:
            raise SystemExit("revert pattern %r matches %d commits" % (old, len(hit)))
        diff = subprocess.run(["git", "-C", REPO, "diff", hit[0], hit[0] + "^", "--", "inference"], capture_output=True, text=True).stdout
        r = subprocess.run(["patch", "-p1", "-s", "-d", copy], input=diff, capture_output=True, text=True)
        if r.returncode != 0:
            raise SystemExit("revert of %s does not apply: %s" % (hit[0], r.stdout + r.stderr))
        return
    p = os.path.join(copy, file)
    s = open(p).read()
    olds, news = (old, new) if isinstance(old, list) else ([old], [new])
    for o, n in zip(olds, news):
        if s.count(o) != 1:
            raise SystemExit("mutant pattern occurs %d times in %s: %r" % (s.count(o), file, o[:60]))
        s = s.replace(o, n)
    open(p, "w").write(s)


def run_one(m, tier, workers):
    name, prop, file, old, new = m
    base = tempfile.mkdtemp(prefix="mut-", dir="/root/scratch")
    copy = os.path.join(base, "repo")
    try:
        shutil.copytree(REPO, copy, ignore=shutil.ignore_patterns(".git", "__pycache__", "*.egg-info", "docs", "demos"))
        apply(copy, file, old, new)
        env = dict(os.environ, VERIF_REPO=copy, VERIF_OUT=base)
        if workers:
            env["VERIF_WORKERS"] = str(workers)
        t0 = time.time()
        worst, lines, err = 0, [], ""
        for one in prop.split(","):
            p = subprocess.run([os.path.join(VERIF, "check"), one, "--tier", tier], env=env, capture_output=True, text=True)
            worst = max(worst, p.returncode)
            lines += [one + ": " + l for l in p.stdout.splitlines() if l.startswith(("violation:", "VIOLATION", "HARNESS"))]
            if p.returncode == 2:
                err += p.stderr[-400:]
        return dict(name=name, property=prop, exit=worst, wall=round(time.time() - t0, 1),
                    lines=[l[:300] for l in lines[:4]], stderr=err)
    finally:
        shutil.rmtree(base, ignore_errors=True)


def main():
    ap = argparse.ArgumentParser()
    ap.add_argument("--only", default="")
    ap.add_argument("--prop", default="")
    ap.add_argument("--tier", default="quick")
    ap.add_argument("--workers", type=int, default=0)
    a = ap.parse_args()
    os.makedirs("/root/scratch", exist_ok=True)
    res = []
    for m in MUTANTS:
        if a.only and a.only not in m[0]:
            continue
        if a.prop and a.prop != m[1]:
            continue
        r = run_one(m, a.tier, a.workers)
        want = 0 if m[0] in EQUIVALENT else 1
        r["ok"] = (r["exit"] == want)
        res.append(r)
        print(json.dumps(r), flush=True)
    bad = [r["name"] for r in res if not r["ok"]]
    print("mutants: %d run, %d as expected, unexpected: %r" % (len(res), len(res) - len(bad), bad))
    return 1 if bad else 0


if __name__ == "__main__":
    sys.exit(main())
