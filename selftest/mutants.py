"""Sensitivity self-test: apply small source mutations, one at a time, to a scratch copy
of the repository (outside /repo and /verif, removed afterwards) and confirm that the
relevant check, pointed at the copy through VERIF_REPO, exits 1.

usage: python selftest/mutants.py [--only NAME_SUBSTR] [--prop C08] [--tier quick] [--jobs 4]
"""
import argparse
import json
import os
import shutil
import subprocess
import sys
import tempfile
import time

VERIF = os.path.dirname(os.path.dirname(os.path.abspath(__file__)))
REPO = "/repo"

# (name, property, file, old, new)
MUTANTS = [
    # ---- C08
    ("pt_swap_inverted_ratio", "C08", "inference/mcmc/parallel.py",
     "if self.rng.random() <= exp(-dt * dp):", "if self.rng.random() <= exp(dt * dp):"),
    ("pt_swap_same_chain", "C08", "inference/mcmc/parallel.py",
     "self.connections[i].send(Dj)\n                self.connections[j].send(Di)",
     "self.connections[i].send(Di)\n                self.connections[j].send(Dj)"),
    ("pt_swap_no_retemper", "C08", "inference/mcmc/parallel.py",
     'chain.probs[-1] = D["probability"] * chain.inv_temp', 'chain.probs[-1] = D["probability"]'),
    ("pt_swap_tempered_probs", "C08", "inference/mcmc/parallel.py",
     "pi = probabilities[i] / self.inv_temps[i]", "pi = probabilities[i]"),
    ("pt_advance_drop_remainder", "C08", "inference/mcmc/parallel.py",
     "if n % swap_interval != 0:\n            self.take_steps(n % swap_interval)", "if False:\n            pass"),
    ("pt_advance_drop_cycle_remainder", "C08", "inference/mcmc/parallel.py",
     "if total_cycles % k != 0:", "if False:"),
    ("pt_take_steps_no_wait", "C08", "inference/mcmc/parallel.py",
     'responses = [pipe.recv() == "advance_complete" for pipe in self.connections]',
     'responses = [True]'),
    ("pt_pairs_overlap", "C08", "inference/mcmc/parallel.py",
     "pairs = [k for k in pairs if not any(j in k for j in p)]", "pairs = [k for k in pairs if k != p]"),
    ("pt_success_counter_always", "C08", "inference/mcmc/parallel.py",
     "                self.successful_swaps[i, j] += 1", "            self.successful_swaps[i, j] += 1"),
    ("pt_shutdown_no_join", "C08", "inference/mcmc/parallel.py",
     "        self.shutdown_evt.set()\n        [p.join() for p in self.processes]",
     "        [p.join(0.01) for p in self.processes]"),
    ("pt_worker_ignores_event", "C08", "inference/mcmc/parallel.py",
     "        while not end.is_set():\n            if connection.poll(timeout=0.05):", "        while True:\n            if connection.poll(timeout=0.05):"),
    ("pt_one_chain_fewer_steps", "C08", "inference/mcmc/parallel.py",
     '            for _ in range(D["advance_count"]):\n                chain.take_step()',
     '            for _ in range(D["advance_count"] - (1 if chain.inv_temp < 0.3 and D["advance_count"] > 7 else 0)):\n                chain.take_step()'),
    ("pt_recv_position_before_send_all", "C08", "inference/mcmc/parallel.py",
     "        [pipe.send(D) for pipe in self.connections]\n\n        # receive the positions and probabilities\n        data = [pipe.recv() for pipe in self.connections]",
     "        data = []\n        for pipe in self.connections:\n            pipe.send(D)\n            data.append(pipe.recv())"),
]

MUTANTS += [
    # ---- the repaired defects must be re-detected when a fix is undone
    ("revert_pickle_printer", "C08", "REVERT", "picklable when display is off", ""),
    ("revert_metropolis_probs", "C03", "REVERT", "MetropolisChain.take_step records", ""),
    ("revert_pca_one_param", "C15", "REVERT", "single parameter", ""),
    ("revert_ensemble_advance0", "C15", "REVERT", "advance(0) on a fresh sampler", ""),
    ("revert_ensemble_copy", "C03", "REVERT", "own copy of the starting positions", ""),
    ("revert_hmc_squeeze", "C14", "REVERT", "get_parameter returns a 1-D array", ""),
    ("revert_load_printer", "C09", "REVERT", "get their progress printer", ""),
    ("revert_pca_save_covar", "C09", "REVERT", "saved before its first direction update", ""),
    ("revert_hmc_load_mass", "C09", "REVERT", "restores the particle mass", ""),
    ("revert_ensemble_load", "C09", "REVERT", "restores chain_length and failed_updates", ""),
    ("revert_get_interval", "C14", "REVERT", "get_interval with a requested sample count", ""),
    ("revert_run_for_zero", "C15", "REVERT", "already exhausted time budget", ""),
    ("revert_run_for_slow", "C15", "REVERT", "longer than a second", ""),
    ("revert_gibbs_limits", "C09", "REVERT", "no longer cancel each other", ""),
]

# the last one is behaviour-preserving (serial request/response): the check must NOT alarm
EQUIVALENT = {"pt_recv_position_before_send_all"}


def apply(copy, file, old, new):
    if file == "REVERT":  # undo one fix commit (old = substring of its subject)
        log = subprocess.run(["git", "-C", REPO, "log", "--format=%h %s"], capture_output=True, text=True).stdout.splitlines()
        hit = [l.split(" ", 1)[0] for l in log if old in l]
        if len(hit) != 1:
            raise SystemExit("revert pattern %r matches %d commits" % (old, len(hit)))
        diff = subprocess.run(["git", "-C", REPO, "diff", hit[0], hit[0] + "^", "--", "inference"], capture_output=True, text=True).stdout
        r = subprocess.run(["patch", "-p1", "-s", "-d", copy], input=diff, capture_output=True, text=True)
        if r.returncode != 0:
            raise SystemExit("revert of %s does not apply: %s" % (hit[0], r.stdout + r.stderr))
        return
    p = os.path.join(copy, file)
    s = open(p).read()
    if s.count(old) != 1:
        raise SystemExit("mutant pattern occurs %d times in %s" % (s.count(old), file))
    open(p, "w").write(s.replace(old, new))


def run_one(m, tier, workers):
    name, prop, file, old, new = m
    base = tempfile.mkdtemp(prefix="mut-", dir="/root/scratch")
    copy = os.path.join(base, "repo")
    try:
        shutil.copytree(REPO, copy, ignore=shutil.ignore_patterns(".git", "__pycache__", "*.egg-info", "docs", "demos"))
        apply(copy, file, old, new)
        env = dict(os.environ, VERIF_REPO=copy, VERIF_OUT=base)
        if workers:
            env["VERIF_WORKERS"] = str(workers)
        t0 = time.time()
        p = subprocess.run([os.path.join(VERIF, "check"), prop, "--tier", tier], env=env, capture_output=True, text=True)
        lines = [l for l in p.stdout.splitlines() if l.startswith(("violation:", "VIOLATION", "HARNESS", "KNOWN"))]
        return dict(name=name, property=prop, exit=p.returncode, wall=round(time.time() - t0, 1),
                    lines=[l[:300] for l in lines[:4]], stderr=p.stderr[-400:] if p.returncode == 2 else "")
    finally:
        shutil.rmtree(base, ignore_errors=True)


def main():
    ap = argparse.ArgumentParser()
    ap.add_argument("--only", default="")
    ap.add_argument("--prop", default="")
    ap.add_argument("--tier", default="quick")
    ap.add_argument("--workers", type=int, default=0)
    a = ap.parse_args()
    os.makedirs("/root/scratch", exist_ok=True)
    res = []
    for m in MUTANTS:
        if a.only and a.only not in m[0]:
            continue
        if a.prop and a.prop != m[1]:
            continue
        r = run_one(m, a.tier, a.workers)
        want = 0 if m[0] in EQUIVALENT else 1
        r["ok"] = (r["exit"] == want)
        res.append(r)
        print(json.dumps(r), flush=True)
    bad = [r["name"] for r in res if not r["ok"]]
    print("mutants: %d run, %d as expected, unexpected: %r" % (len(res), len(res) - len(bad), bad))
    return 1 if bad else 0


if __name__ == "__main__":
    sys.exit(main())
