"""Evaluate the independently written breaking changes kept under /verif/seeded/<id>/.

For each seeded change: copy /repo to a scratch directory (outside /repo and /verif),
apply patch.diff, confirm the demonstration fails there (and passes on the unchanged
copy), run the check of the property it breaks against the copy (VERIF_REPO) and record
whether it exits 1.  The scratch copy is removed afterwards.

usage: python selftest/seeded.py [--only ID_SUBSTR] [--tier quick] [--demo]
"""
import argparse
import json
import os
import shutil
import subprocess
import sys
import tempfile
import time

VERIF = os.path.dirname(os.path.dirname(os.path.abspath(__file__)))
REPO = "/repo"
PY = "/venv/bin/python"


def run_demo(copy, demo):
    env = dict(os.environ, PYTHONPATH=copy, MPLBACKEND="Agg", OMP_NUM_THREADS="1", OPENBLAS_NUM_THREADS="1")
    try:
        p = subprocess.run([PY, demo], cwd=copy, env=env, capture_output=True, text=True, timeout=600)
        return p.returncode, (p.stdout + p.stderr)[-400:]
    except subprocess.TimeoutExpired:
        return 124, "timeout"


def main():
    ap = argparse.ArgumentParser()
    ap.add_argument("--only", default="")
    ap.add_argument("--tier", default="quick")
    ap.add_argument("--demo", action="store_true", help="also re-run the demonstrations")
    ap.add_argument("--suite", action="store_true", help="also run the repository's test-suite on the changed copy")
    ap.add_argument("--no-checks", action="store_true")
    ap.add_argument("--results", default="", help="write / merge the outcome into this file instead of seeded/RESULTS.json (parallel runs)")
    ap.add_argument("--seeds", default="", help="comma-separated VERIF_SEED values: run the check once per seed and report the caught fraction")
    a = ap.parse_args()
    os.makedirs("/root/scratch", exist_ok=True)
    root = os.path.join(VERIF, "seeded")
    out = []
    for sid in sorted(os.listdir(root)):
        d = os.path.join(root, sid)
        if not os.path.isdir(d) or (a.only and a.only not in sid):
            continue
        meta = json.load(open(os.path.join(d, "meta.json")))
        base = tempfile.mkdtemp(prefix="seed-", dir="/root/scratch")
        copy = os.path.join(base, "repo")
        try:
            shutil.copytree(REPO, copy, ignore=shutil.ignore_patterns(".git", "__pycache__", "*.egg-info", "docs", "demos"))
            rec = dict(id=sid, property=meta["property"])
            demo = os.path.join(d, meta.get("demo", "demo.py"))
            if a.demo:
                rec["demo_unchanged_exit"] = run_demo(copy, demo)[0]
            r = subprocess.run(["patch", "-p1", "-s", "-d", copy], stdin=open(os.path.join(d, "patch.diff")), capture_output=True, text=True)
            if r.returncode != 0:
                rec["error"] = "patch does not apply: " + (r.stdout + r.stderr)[-300:]
                out.append(rec)
                print(json.dumps(rec), flush=True)
                continue
            if a.demo:
                rec["demo_changed_exit"] = run_demo(copy, demo)[0]
            if a.suite:
                shutil.copytree(os.path.join(REPO, "tests"), os.path.join(copy, "tests"), dirs_exist_ok=True)
                env = dict(os.environ, PYTHONPATH=copy, MPLBACKEND="Agg")
                p = subprocess.run([PY, "-m", "pytest", "-q", "-p", "no:cacheprovider", "-n", "8", "--timeout=900"], cwd=copy, env=env,
                                   capture_output=True, text=True)
                tail = [l for l in p.stdout.splitlines() if " passed" in l or " failed" in l]
                rec["suite_with_change"] = tail[-1].strip() if tail else "exit %d" % p.returncode
            checks = meta.get("checks") or [meta["property"]]
            rec["checks"] = {}
            for prop in ([] if a.no_checks else checks):
                t0 = time.time()
                env = dict(os.environ, VERIF_REPO=copy, VERIF_OUT=base)
                if a.seeds:
                    exits = {}
                    for sd in a.seeds.split(","):
                        env["VERIF_SEED"] = sd
                        p = subprocess.run([os.path.join(VERIF, "check"), prop, "--tier", a.tier], env=env, capture_output=True, text=True)
                        exits[sd] = p.returncode
                    rec.setdefault("by_seed", {})[prop] = exits
                    rec["checks"][prop] = dict(exit=1 if all(v == 1 for v in exits.values()) else 0, wall=round(time.time() - t0, 1),
                                               first_violation=[])
                    continue
                p = subprocess.run([os.path.join(VERIF, "check"), prop, "--tier", a.tier], env=env, capture_output=True, text=True)
                viol = [l[:260] for l in p.stdout.splitlines() if l.startswith("violation:")]
                rec["checks"][prop] = dict(exit=p.returncode, wall=round(time.time() - t0, 1), first_violation=viol[:1])
            if a.no_checks:
                del rec["checks"]
            else:
                rec["caught"] = any(v["exit"] == 1 for v in rec["checks"].values())
            out.append(rec)
            print(json.dumps(rec), flush=True)
        finally:
            shutil.rmtree(base, ignore_errors=True)
    if a.seeds:
        with open(os.path.join(root, "RESULTS-by-seed.json"), "w") as f:
            json.dump(out, f, indent=1)
        print("multi-seed: mutants not caught under every seed: %r" % [r["id"] for r in out if not r.get("caught")])
        return 0
    rp = a.results or os.path.join(root, "RESULTS.json")
    merged = {}
    if os.path.exists(rp):
        try:
            merged = {r["id"]: r for r in json.load(open(rp))}
        except Exception:  # noqa
            merged = {}
    for r in out:
        prev = merged.get(r["id"], {})
        for k in ("demo_unchanged_exit", "demo_changed_exit", "suite_with_change", "checks", "caught"):
            if k not in r and k in prev:
                r[k] = prev[k]
        merged[r["id"]] = r
    with open(rp, "w") as f:
        json.dump([merged[k] for k in sorted(merged)], f, indent=1)
    missed = [r["id"] for r in out if "caught" in r and not r.get("caught")]
    print("seeded changes: %d evaluated, %d caught, missed: %r" % (len(out), len(out) - len(missed), missed))
    return 0


if __name__ == "__main__":
    sys.exit(main())
