"""Determinism self-test: the same seed must give the same scenarios, the same event
logs and the same verdicts - twice in one interpreter and in a fresh interpreter under
another PYTHONHASHSEED.

usage: python selftest/determinism.py C08 [--rounds 4] [--examples 25]
"""
import argparse
import hashlib
import json
import os
import subprocess
import sys

VERIF = os.path.dirname(os.path.dirname(os.path.abspath(__file__)))
sys.path.insert(0, VERIF)


def one(prop, seed, n):
    from simkit import driver, seams

    seams.import_inference()
    r = driver.hyp_job(driver.MODULES[prop], "quick", seed, n, 600)
    key = dict(evaluations=r["evaluations"], digests=r["digests"], nontrivial=r["nontrivial"], shapes=r["shapes"],
               failure=None if r["failure"] is None else r["failure"]["violation"]["invariant"],
               harness_error=r["harness_error"], stats={k: v for k, v in sorted(r["stats"].items())})
    return hashlib.sha256(json.dumps(key, sort_keys=True).encode()).hexdigest()[:16], key


def main():
    ap = argparse.ArgumentParser()
    ap.add_argument("prop")
    ap.add_argument("--rounds", type=int, default=4)
    ap.add_argument("--examples", type=int, default=25)
    ap.add_argument("--child", type=int, default=None)
    a = ap.parse_args()
    if a.child is not None:
        print(one(a.prop, a.child, a.examples)[0])
        return 0
    bad = 0
    for r in range(a.rounds):
        seed = 1000 + r
        h1, k1 = one(a.prop, seed, a.examples)
        h2, k2 = one(a.prop, seed, a.examples)
        env = dict(os.environ, PYTHONHASHSEED=str(77 + r))
        p = subprocess.run([sys.executable, __file__, a.prop, "--child", str(seed), "--examples", str(a.examples)],
                           env=env, capture_output=True, text=True)
        h3 = p.stdout.strip().splitlines()[-1] if p.stdout.strip() else "ERR " + p.stderr[-300:]
        ok = h1 == h2 == h3
        print("round %d seed %d: %s %s %s %s (evaluations %d)" % (r, seed, h1, h2, h3, "OK" if ok else "MISMATCH", k1["evaluations"]))
        if not ok:
            bad += 1
            for k in k1:
                if k1[k] != k2[k]:
                    print("   in-process difference in", k)
    print("determinism: %d rounds, %d mismatches" % (a.rounds, bad))
    return 1 if bad else 0


if __name__ == "__main__":
    sys.exit(main())
