"""Copy the outcome recorded in seeded/RESULTS.json (written by selftest/seeded.py) into the
`confirmed_here` block of each seeded/<id>/meta.json."""
import json
import os

VERIF = os.path.dirname(os.path.dirname(os.path.abspath(__file__)))
PROC = ("scratch copy of /repo (outside /repo and /verif) + patch -p1 < patch.diff; demo.py run on the unchanged and on the "
        "changed copy; full test-suite on the changed copy; the property's quick check with VERIF_REPO pointing at the changed "
        "copy (selftest/seeded.py --demo --suite)")


def main():
    root = os.path.join(VERIF, "seeded")
    res = {r["id"]: r for r in json.load(open(os.path.join(root, "RESULTS.json")))}
    n = 0
    for sid in sorted(os.listdir(root)):
        mp = os.path.join(root, sid, "meta.json")
        if not os.path.isfile(mp) or sid not in res:
            continue
        meta = json.load(open(mp))
        r = res[sid]
        meta["confirmed_here"] = dict(
            procedure=PROC,
            demo_exit_unchanged=r.get("demo_unchanged_exit"),
            demo_exit_changed=r.get("demo_changed_exit"),
            suite_with_change=r.get("suite_with_change"),
            check_exit={k: v["exit"] for k, v in (r.get("checks") or {}).items()},
            first_violation={k: (v.get("first_violation") or [""])[0][:200] for k, v in (r.get("checks") or {}).items()},
        )
        json.dump(meta, open(mp, "w"), indent=1)
        n += 1
    print("folded", n)


if __name__ == "__main__":
    main()
