#!/bin/bash
# Full regression of the seeded changes, one process per property in parallel (each check on VERIF_WORKERS cores);
# per-property outcomes are merged into seeded/RESULTS.json at the end.
cd "$(dirname "$0")/.."
mkdir -p /root/scratch/regress
for p in C01 C03 C04 C08 C09 C14 C15 C18; do
  VERIF_WORKERS=${VERIF_WORKERS:-3} /venv/bin/python selftest/seeded.py --only="$p-" --results /root/scratch/regress/$p.json > /root/scratch/regress/$p.log 2>&1 &
done
wait
/venv/bin/python - <<'PY'
import json, glob
root = "seeded/RESULTS.json"
merged = {r["id"]: r for r in json.load(open(root))}
for f in sorted(glob.glob("/root/scratch/regress/C*.json")):
    for r in json.load(open(f)):
        prev = merged.get(r["id"], {})
        for k in ("demo_unchanged_exit", "demo_changed_exit", "suite_with_change"):
            if k not in r and k in prev:
                r[k] = prev[k]
        merged[r["id"]] = r
json.dump([merged[k] for k in sorted(merged)], open(root, "w"), indent=1)
missed = [k for k, r in sorted(merged.items()) if not r.get("caught")]
print("seeded changes: %d, missed: %r" % (len(merged), missed))
PY
