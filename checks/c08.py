"""C08 - parallel-tempering exchanges are correct and independent of scheduling.

System under simulation: the real `ParallelTempering` object in the main task and one
real `tempering_process` loop per chain in worker tasks, on the simulated transport
(simkit.kernel).  See DESIGN.md 3.4.
"""
import itertools
import math

import numpy as np
from hypothesis import strategies as st

from simkit import build, ctx as rctx, kernel, oracles, seams, targets
from simkit.driver import digest
from simkit.rng import find_generators

PROPERTY = "C08"
LEVEL = "exploration"


def plan(tier):
    if tier == "thorough":
        return dict(rounds=640, examples_per_round=80, wall_cap=3000, job_timeout=1500)
    return dict(rounds=72, examples_per_round=16, wall_cap=420, job_timeout=600)


# ------------------------------------------------------------------ scenario strategy
_steps = st.one_of(st.sampled_from([0, 1, 1, 2, 3, 5, 10]), st.integers(0, 40))
_adv_n = st.one_of(st.sampled_from([0, 1, 2, 9, 10, 11, 49, 50, 51, 52, 99, 100, 101]), st.integers(0, 130))
_adv_k = st.one_of(st.sampled_from([1, 1, 2, 3, 5, 10, 10]), st.integers(1, 60))


@st.composite
def _scenario(draw, tier):
    kind = draw(st.sampled_from(["gibbs", "gibbs", "pca", "hmc", "metropolis"]))
    n = draw(st.sampled_from([1, 2, 2, 3, 3, 4, 4, 5, 6, 7, 7, 8, 9, 10]))
    d = draw(st.integers(1, 3))
    if n > 6:  # many chains: keep each one cheap
        kind = "gibbs" if kind in ("pca", "hmc") else kind
        d = 1
    bounded = kind in ("pca", "hmc") and draw(st.booleans()) and draw(st.booleans())
    if bounded:
        lo = [draw(st.sampled_from([-2.0, -0.5, 0.0, 10.0])) for _ in range(d)]
        hi = [l + draw(st.sampled_from([0.5, 1.0, 3.0])) for l in lo]
        tspec = dict(kind="truncgauss", d=d, lo=lo, hi=hi, mu=[(a + b) / 2 for a, b in zip(lo, hi)], s=[1.0] * d)
    else:
        tk = draw(st.sampled_from(["gauss", "gauss", "laplace", "corrgauss", "moat"]))
        if tk == "corrgauss" and d < 2:
            tk = "gauss"
        tspec = dict(kind=tk, d=d)
        if tk == "gauss" and draw(st.integers(0, 4)) == 0:
            # a steep log-density (as real likelihoods are): chains that start apart differ by thousands in log-density,
            # exchange exponents far beyond the range of exp()
            tspec.update(s=[0.02] * d, steep=True)
    temps = [draw(st.sampled_from([1.0, 1.0, 1.0, 2.0]))]
    for _ in range(n - 1):
        # (factor 1.0: two replicas at the same temperature - accepted by the library without a warning; their exchange
        # probability is exp(0) = 1)
        temps.append(round(temps[-1] * draw(st.sampled_from([1.3, 2.0, 3.0, 5.0, 1.0] if n <= 6 else [1.2, 1.5, 2.0, 1.0])), 4))
    if n >= 2 and draw(st.integers(0, 3)) == 0:
        # the library only warns about a ladder that is not increasing; the exchange rule must hold for it too
        temps = draw(st.permutations(temps))
    timed = draw(st.integers(0, 9)) == 0
    ops = []
    nops = draw(st.integers(1, 6))
    for _ in range(nops):
        k = draw(st.sampled_from(["take_steps", "swap", "swap", "advance", "advance", "return_chains", "timed"]))
        if timed and k in ("take_steps", "advance"):
            if k == "take_steps":
                ops.append(["take_steps", draw(st.integers(0, 4))])
            else:
                ops.append(["advance", draw(st.integers(0, 12)), draw(st.integers(1, 6))])
        elif k == "take_steps":
            ops.append(["take_steps", draw(_steps)])
        elif k == "swap":
            ops.append(["swap"])
        elif k == "advance":
            ops.append(["advance", draw(_adv_n), draw(_adv_k)])
        elif k == "return_chains":
            ops.append(["return_chains"])
        elif timed:
            ops.append(["run_for", draw(st.sampled_from([0.0, 0.01, 0.05, 0.2, 1.0])), draw(st.sampled_from([1, 2, 5]))])
    if not timed and kind in ("gibbs", "metropolis") and n <= 4 and d <= 2 and draw(st.integers(0, 7)) == 0:
        # one command far beyond the usual sizes (hundreds of steps inside a single worker command)
        if draw(st.booleans()):
            big = ["take_steps", draw(st.sampled_from([501, 640, 1000, 1203]))]
        else:
            big = ["advance", draw(st.sampled_from([1100, 1501])), draw(st.sampled_from([550, 700, 750]))]
        ops.insert(draw(st.integers(0, len(ops))), big)
    scheds = []
    for _ in range(draw(st.integers(1, 2))):
        scheds.append(dict(
            seed=draw(st.integers(0, 2 ** 31 - 1)),
            stall_p=draw(st.sampled_from([0.0, 0.02, 0.02, 0.1])),
            long_lat_p=draw(st.sampled_from([0.0, 0.0, 0.05, 0.3])),
            pipe_cap=draw(st.sampled_from([None, None, 256, 4096])),
            speed_spread=draw(st.sampled_from([1.0, 4.0, 4.0, 20.0])),
            cores=draw(st.sampled_from([None, None, 1, 2, 4])),
            clock_res=draw(st.sampled_from([0.0, 0.0, 0.0, 0.0156])) if timed else 0.0,
            # forward jumps of the wall clock during a timed run: [after how many readings, fraction of the budget]
            clock_jumps=[[draw(st.integers(1, 12)), draw(st.sampled_from([0.3, 0.9, 5.0]))]] if timed and draw(st.integers(0, 2)) == 0 else [],
        ))
    return dict(
        chain=kind, n=n, d=d, target=tspec, temps=temps, bounded=bounded,
        same_start=draw(st.booleans()), seed=draw(st.integers(0, 2 ** 32 - 1)),
        display=draw(st.booleans()), ops=ops, snap=draw(st.booleans()), scheds=scheds,
        eval_cost=draw(st.sampled_from([0.05, 0.3, 2.0])) if timed else draw(st.sampled_from([1e-5, 1e-4, 1e-3, 1e-2])),
        hmc_steps=draw(st.integers(2, 5)), pca_update=draw(st.sampled_from([3, 7, 20, 100])),
        shutdown=True,
    )


def scenarios(tier):
    return _scenario(tier)


# ------------------------------------------------------------------ executor
class Snap:
    def __init__(self, chain):
        self.S = oracles.full_sample(chain)
        self.P = oracles.full_probs(chain)
        self.length = int(getattr(chain, "chain_length", self.S.shape[0]))
        self.chain = chain

    @property
    def last(self):
        return self.S[-1]


def _viol(V, inv, detail, **key):
    V.append(dict(invariant=inv, detail=detail, key=key))


def _pt_uniforms(c, names, seq0):
    us = []
    for nm in names:
        for (seq, meth, args, res) in c.rng_logs.get(nm, []):
            if seq > seq0 and meth in ("random", "uniform") and np.ndim(res) == 0:
                us.append((seq, float(res)))
    us.sort()
    return [u for _, u in us]


def check_swap(V, pre, post, A0, A1, S0, S1, uniforms, temps, tgts, stats):
    N = len(pre)
    dA = np.asarray(A1, dtype=float) - np.asarray(A0, dtype=float)
    dS = np.asarray(S1, dtype=float) - np.asarray(S0, dtype=float)
    if (dA < 0).any() or (dS < 0).any():
        _viol(V, "swap.counters_decrease", "attempted/successful swap counters decreased: dA=%r dS=%r" % (dA.tolist(), dS.tolist()))
    pairs = {}
    for i, j in np.argwhere(dA != 0):
        a, b = (int(i), int(j)) if i < j else (int(j), int(i))
        pairs[(a, b)] = pairs.get((a, b), 0) + dA[i, j]
    for (a, b), cnt in pairs.items():
        if a == b:
            _viol(V, "swap.pairing", "chain %d was paired with itself" % a)
        if cnt != 1:
            _viol(V, "swap.pairing", "pair %r attempted %g times in one round" % ((a, b), cnt))
    deg = [0] * N
    for (a, b) in pairs:
        deg[a] += 1
        if b != a:
            deg[b] += 1
    if any(x > 1 for x in deg):
        _viol(V, "swap.pairing", "a chain takes part in more than one proposed pair: pairs=%r" % sorted(pairs))
    if any(x > 1 for x in deg) or any(a == b for a, b in pairs):
        return
    stats["probe_swap_pairs"] += len(pairs)
    touched = set()
    decisions = []  # (accept_prob, exchanged) for unambiguous pairs with a<1
    n_exch = 0
    for (i, j) in sorted(pairs):
        touched.update((i, j))
        xi, xj = pre[i].last, pre[j].last
        Li, Lj = tgts[i].logpdf(xi), tgts[j].logpdf(xj)
        expo = (1.0 / temps[i] - 1.0 / temps[j]) * (Lj - Li)
        if math.isnan(expo):  # both at -inf (or equal temperatures with an infinite gap): undefined, not judged
            stats["probe_swap_undefined_ratio"] += 1
            continue
        a = 1.0 if expo >= 0 else math.exp(expo)
        ambiguous = np.array_equal(xi, xj)
        if ambiguous:
            stats["probe_swap_identical_points"] += 1
            continue
        exch = np.array_equal(post[i].last, xj) and np.array_equal(post[j].last, xi)
        stay = np.array_equal(post[i].last, xi) and np.array_equal(post[j].last, xj)
        if not exch and not stay:
            _viol(V, "swap.handover", "after swap() pair (%d,%d): chain %d holds %r, chain %d holds %r; before: %r / %r"
                  % (i, j, i, post[i].last.tolist(), j, post[j].last.tolist(), xi.tolist(), xj.tolist()))
            continue
        got = dS[i, j] + dS[j, i]
        if exch:
            n_exch += 1
            stats["probe_swap_exchanged"] += 1
            wi, wj = Lj / temps[i], Li / temps[j]
            if not oracles.close(post[i].P[-1], wi, 1e-9, 1e-9) or not oracles.close(post[j].P[-1], wj, 1e-9, 1e-9):
                _viol(V, "swap.retemper", "exchanged pair (%d,%d): stored log-probs %r,%r but L_j/T_i=%r, L_i/T_j=%r"
                      % (i, j, float(post[i].P[-1]), float(post[j].P[-1]), wi, wj))
            for c in (i, j):
                if not (np.array_equal(post[c].S[:-1], pre[c].S[:-1]) and np.array_equal(post[c].P[:-1], pre[c].P[:-1])
                        and post[c].S.shape == pre[c].S.shape):
                    _viol(V, "swap.handover", "exchange changed more than the last row of chain %d" % c)
            if got != 1:
                _viol(V, "swap.counters", "pair (%d,%d) exchanged but successful_swaps grew by %g" % (i, j, got))
        else:
            for c in (i, j):
                if not (np.array_equal(post[c].S, pre[c].S) and np.array_equal(post[c].P, pre[c].P)):
                    _viol(V, "swap.untouched", "pair (%d,%d) not exchanged but chain %d changed" % (i, j, c))
            if got != 0:
                _viol(V, "swap.counters", "pair (%d,%d) not exchanged but successful_swaps grew by %g" % (i, j, got))
        if a >= 1.0:
            if not exch:
                _viol(V, "swap.rule", "pair (%d,%d) has acceptance probability 1 (T=%g,%g L=%r,%r) but was not exchanged"
                      % (i, j, temps[i], temps[j], Li, Lj))
        else:
            decisions.append((a, exch, (i, j)))
    for c in range(N):
        if c not in touched:
            if not (np.array_equal(post[c].S, pre[c].S) and np.array_equal(post[c].P, pre[c].P)):
                _viol(V, "swap.untouched", "chain %d was in no proposed pair but changed during swap()" % c)
    # decisions must be explainable by the uniforms the exchange step drew
    if decisions:
        if len(uniforms) < len(decisions):
            stats["warn_uninterpretable_swap_draws"] += 1
        else:
            ok = False
            for perm in itertools.permutations(range(len(uniforms)), len(decisions)):
                good = True
                for (a, exch, _), ui in zip(decisions, perm):
                    u = uniforms[ui]
                    if abs(u - a) < 1e-9:
                        continue
                    if (u <= a) != exch:
                        good = False
                        break
                if good:
                    ok = True
                    break
            if not ok:
                _viol(V, "swap.rule", "exchange decisions %r (accept prob, exchanged, pair) cannot be explained by the "
                      "uniform draws %r of the exchange step: rule is exchange <=> u <= min(1, exp((1/Ti-1/Tj)(Lj-Li)))"
                      % ([(round(a, 6), e, p) for a, e, p in decisions], [round(u, 6) for u in uniforms]))
            else:
                stats["probe_swap_rule_checked"] += len(decisions)


def check_provenance(V, pre, post, c, N, dS, stats, tag="advance"):
    """Rows added by advance()/run_for(): each is a point some chain's own kernel evaluated
    (its own, or - after an exchange - another chain's, mutually)."""
    evals = []
    for k in range(N):
        evals.append({th.tobytes() for (_, kind, th, _) in c.post_logs.get("c%d" % k, []) if kind == "post"})
    lo = min(s.S.shape[0] for s in pre)
    hi = min(s.S.shape[0] for s in post)
    forced = 0
    for r in range(lo, hi):
        origin = []
        for k in range(N):
            b = np.ascontiguousarray(post[k].S[r]).tobytes()
            if b in evals[k]:
                origin.append(k)
            else:
                src = [m for m in range(N) if m != k and b in evals[m]]
                if not src:
                    _viol(V, tag + ".provenance", "row %d of chain %d (%r) is not a point any chain's kernel evaluated"
                          % (r, k, post[k].S[r].tolist()))
                    return
                origin.append(src)
        for k in range(N):
            if isinstance(origin[k], list):
                mutual = [m for m in origin[k] if isinstance(origin[m], list) and k in origin[m]]
                if not mutual:
                    _viol(V, tag + ".provenance", "row %d: chain %d holds a point of chain(s) %r but none of them holds "
                          "a point of chain %d (not a transposition)" % (r, k, origin[k], k))
                    return
                forced += 1
    forced //= 2
    stats["probe_exchanges_inside_advance"] += forced
    if forced > dS:
        _viol(V, tag + ".counters", "%d exchanges are visible in the returned chains but successful_swaps grew by %g"
              % (forced, dS))


def chains_digest(chs, extra):
    return digest([oracles.canon(ch) for ch in chs] + [extra])


def run_pt(sc, sched, canonical=False, want_trace=False):
    """One simulated execution.  Returns dict(violations, digest, stats, sim_seconds, events_digest)."""
    import collections

    V = []
    stats = collections.Counter()
    c = rctx.new_run(sc["seed"])
    seams.seed_global_streams(sc["seed"])
    cfg = dict(canonical=canonical, max_yields=3_000_000 if sc.get("eval_cost", 0) < 100 else 60_000_000)
    if not canonical:
        cfg.update(stall_p=sched["stall_p"], long_lat_p=sched["long_lat_p"], pipe_cap=sched["pipe_cap"],
                   speed_spread=sched["speed_spread"], clock_res=float(sched.get("clock_res") or 0.0))
    sim = kernel.Sim(sched["seed"] if not canonical else 0, cfg)
    # the size of the machine is part of the environment: the canonical run has more cores than chains, a fault schedule
    # may have fewer (1, 2, 4) - the result must not depend on it
    c.cores = 64 if canonical else int(sched.get("cores") or 64)
    if c.cores < sc["n"]:
        stats["fault_fewer_cores_than_chains"] += 1
    mp = kernel.SimMP(sim)
    sim.mark_fn = lambda: c.stats["evals_post"]
    # timed-run progress watch: while run_for is in progress and its deadline has not passed, the main
    # task must not keep reading the clock without any posterior evaluation happening anywhere
    watch = dict(deadline=None, idle=0, evals=-1)
    real_time = sim.time

    def watched_time():
        if watch["deadline"] is not None and sim.current is sim.main:
            ev = c.stats["evals_post"]
            if ev == watch["evals"]:
                watch["idle"] += 1
            else:
                watch["idle"], watch["evals"] = 0, ev
            if watch["idle"] > 1000 and sim.wall() < watch["deadline"]:
                raise seams.BusyWait("%d consecutive clock readings by the main process without a posterior evaluation in any "
                                     "worker, %.3f simulated s before the deadline" % (watch["idle"], watch["deadline"] - sim.wall()))
        return real_time()

    sim.time = watched_time
    N, d = sc["n"], sc["d"]
    temps = [float(t) for t in sc["temps"]]
    out = dict(violations=V, stats=stats, digest=None, timed=False)
    final = None
    try:
        with seams.Seams(sim=sim, mp=mp):
            from inference.mcmc.parallel import ParallelTempering

            srng = np.random.Generator(np.random.PCG64(c.child_seed(9)))
            tgts, chains = [], []
            x_shared = None
            for k in range(N):
                tg = targets.make_target(sc["target"], tag="c%d" % k)
                if sc["bounded"] or sc["target"]["kind"] == "moat":
                    x0 = tg.draw(srng, 1.0)  # (never inside the zero-probability moat)
                else:
                    x0 = tg.draw(srng, 1.0) * 0.5 + 0.1
                if sc["target"].get("steep") and not sc["same_start"]:
                    x0 = x0 + 1.3 * ((N - k) if (sc["seed"] >> 7) & 1 else k)
                    stats["fault_log_densities_thousands_apart"] += 1
                if sc["same_start"]:
                    if x_shared is None:
                        x_shared = x0
                    x0 = x_shared.copy()
                elif d >= 2 and (sc["seed"] >> 5) % 3 == 0:
                    # start points that agree in their first coordinate only (a shared, well-known parameter value)
                    if x_shared is None:
                        x_shared = x0
                        stats["fault_starts_share_one_coordinate"] += 1
                    x0[0] = x_shared[0]
                moat_start = sc["target"]["kind"] == "moat" and k == (sc["seed"] % N)
                if moat_start:
                    x0[0] = 0.5 * (tg.a + tg.b)  # this chain starts inside the zero-probability moat (L = -inf)
                    stats["fault_chain_starts_at_zero_probability"] += 1
                spec = dict(kind=sc["chain"], T=temps[k], display=sc["display"], widths=[1.0 + 0.5 * k] * d,
                            epsilon=0.3, bounds=(sc["target"]["lo"], sc["target"]["hi"]) if sc["bounded"] else None,
                            knobs=dict(steps=sc["hmc_steps"], dir_update_interval=sc["pca_update"]))
                if sc["target"]["kind"] == "moat":
                    # one chain of this ladder starts at -inf and exchanges can pass that point on: keep every chain's
                    # width adaptation out of reach of a NaN acceptance probability (-inf against -inf; see lifecycle)
                    spec["knobs"].update(chk_int=10 ** 9, max_tries=10 ** 9)
                chains.append(build.build_chain(spec, tg, x0))
                tgts.append(tg)
            c.sim = sim
            c.eval_cost = c.grad_cost = float(sc["eval_cost"])
            L = oracles.lib_call
            pt = L('ParallelTempering()', ParallelTempering, chains)
            if (sc["seed"] >> 3) % 4 == 0 and N >= 2:
                # the caller goes on using the list (and the chain objects) it passed: the workers own copies, so nothing
                # the caller does to them afterwards may reach the ladder
                chains.reverse()
                for ch_ in chains:
                    ch_.inv_temp = 0.123
                chains.pop()
                stats["fault_caller_reuses_the_chain_list"] += 1
            pt_gen_names = [g.name for g in find_generators(pt).values()]
            prev = None
            if sc["snap"]:
                prev = L('read-out of returned chains', lambda: [Snap(ch) for ch in L('return_chains', pt.return_chains)])
                _check_snap(V, prev, tgts, temps, stats, "initial")
            expected = [1] * N
            for op in sc["ops"]:
                if V:
                    break
                seq0 = c.seq
                A0, S0 = pt.attempted_swaps.copy(), pt.successful_swaps.copy()
                t0 = sim.now
                name = op[0]
                stats["op_" + name] += 1
                if name in ("take_steps", "advance") and (op[1] if name == "take_steps" else min(op[1], op[2])) > 500:
                    stats["probe_worker_command_of_more_than_500_steps"] += 1
                if name == "take_steps":
                    L('take_steps', pt.take_steps, op[1])
                    expected = None if expected is None else [e + op[1] for e in expected]
                elif name == "swap":
                    if not sc["snap"]:
                        prev = L('read-out of returned chains', lambda: [Snap(ch) for ch in L('return_chains', pt.return_chains)])
                        seq0 = c.seq
                    L('swap', pt.swap)
                elif name == "advance":
                    L('advance', pt.advance, op[1], swap_interval=op[2])
                    expected = None if expected is None else [e + op[1] for e in expected]
                elif name == "run_for":
                    out["timed"] = True
                    t_call = sim.wall()
                    if sched.get("clock_jumps"):
                        # forward jumps of the wall clock, counted in clock readings from the start of this timed run
                        sim.cfg["clock_jumps"] = sorted([sim.stats["clock_reads"] + int(a), float(b) * op[1] * 60.0]
                                                        for a, b in sched["clock_jumps"])
                    watch.update(deadline=sim.wall() + op[1] * 60.0, idle=0, evals=-1)
                    try:
                        if (sc["seed"] + len(sc["ops"])) % 2:
                            L('run_for', pt.run_for, minutes=op[1], swap_interval=op[2])
                        else:  # the same budget given in hours
                            L('run_for', pt.run_for, hours=op[1] / 60.0, swap_interval=op[2])
                    finally:
                        watch["deadline"] = None
                    out.setdefault("timed_ops", []).append((op[1] * 60.0, sim.wall() - t_call))
                    expected = None
                elif name == "return_chains":
                    got = L('return_chains', pt.return_chains)
                    if len(got) != N:
                        _viol(V, "return.complete", "return_chains() gave %d chains for %d workers" % (len(got), N))
                uniforms = _pt_uniforms(c, pt_gen_names, seq0)
                A1, S1 = pt.attempted_swaps.copy(), pt.successful_swaps.copy()
                if sc["snap"] or name == "swap":
                    cur = L('read-out of returned chains', lambda: [Snap(ch) for ch in L('return_chains', pt.return_chains)])
                    _check_snap(V, cur, tgts, temps, stats, "after " + name, prev)
                    if name == "swap":
                        check_swap(V, prev, cur, A0, A1, S0, S1, uniforms, temps, tgts, stats)
                    elif name in ("advance", "run_for") and prev is not None:
                        check_provenance(V, prev, cur, c, N, float((S1 - S0).sum()), stats, name)
                    if prev is not None and name in ("take_steps", "advance", "run_for"):
                        dl = [b.length - a.length for a, b in zip(prev, cur)]
                        if name == "run_for":
                            if len(set(dl)) != 1:
                                _viol(V, "advance.equal", "run_for advanced the chains unequally: %r" % dl)
                        elif any(x != op[1] for x in dl):
                            _viol(V, "advance.equal", "%s(%r) advanced the chains by %r steps" % (name, op[1:], dl))
                    if name in ("take_steps", "return_chains") and prev is not None and (A1 != A0).any():
                        _viol(V, "swap.counters", "%s changed the swap counters" % name)
                    prev = cur if sc["snap"] else None
            if not V:
                final = L('return_chains', pt.return_chains)
                if len(final) != N:
                    _viol(V, "return.complete", "return_chains() gave %d chains for %d workers" % (len(final), N))
                fs = L('read-out of returned chains', lambda: [Snap(ch) for ch in final])
                _check_snap(V, fs, tgts, temps, stats, "final")
                if expected is not None:
                    ln = [s.length for s in fs]
                    if ln != expected:
                        _viol(V, "advance.equal", "after ops %r chain lengths are %r, expected %r" % (sc["ops"], ln, expected))
                elif len({s.length for s in fs}) != 1:
                    _viol(V, "advance.equal", "chains ended with unequal lengths %r" % [s.length for s in fs])
                out["digest"] = chains_digest(final, [pt.attempted_swaps.tolist(), pt.successful_swaps.tolist()])
                out["n_attempted"] = float(pt.attempted_swaps.sum() - N)
                out["steps"] = fs[0].length - 1
            if not V and sc.get("shutdown", True):
                t0 = sim.now
                st0 = sim.stats["stalls"]
                sim.watchdog = sim.now + 600.0
                L('shutdown', pt.shutdown)
                sim.watchdog = None
                live = sim.live_workers()
                if live:
                    _viol(V, "shutdown.terminate", "workers still alive after shutdown(): %r" % live)
                dur = sim.now - t0
                bound = 1.0 + 0.06 * 20.0 + 1.05 * 20.0 * (sim.stats["stalls"] - st0 + 1)
                if dur > bound:
                    _viol(V, "shutdown.bounded", "shutdown() took %.3f simulated s (bound %.3f)" % (dur, bound))
    except kernel.Deadlock as e:
        dead = [(t.name, type(t.exc).__name__, str(t.exc)[:300]) for t in sim.tasks if t.exc is not None]
        if dead and all(d_[1] == "StepCap" for d_ in dead) and sim.mark_value is not None and c.stats["evals_post"] > sim.mark_value:
            pass  # (classified after the tear-down below: slow, not hung)
        elif dead:
            _viol(V, "worker.died", "worker task raised: %r" % dead)
        else:
            _viol(V, "liveness.deadlock", str(e))
    except kernel.StepCap as e:
        if sim.mark_value is not None and c.stats["evals_post"] > sim.mark_value:
            # the cap on yield points is a resource limit of the harness: chains were still being evaluated during its last
            # fifth, so the scenario is slow (idle workers poll every 0.05 simulated s while a slow one computes), not hung
            stats["stepcap_while_still_evaluating_history_ended"] += 1
        else:
            _viol(V, "liveness.stepcap", str(e))
    except seams.BusyWait as e:
        _viol(V, "timed.progress", "ParallelTempering.run_for stopped stepping before its time budget was used up: %s" % e)
    except kernel.Overdue as e:
        _viol(V, "shutdown.bounded", "shutdown() had not returned after 600 simulated seconds (%s); live workers %r"
              % (e, sim.live_workers()))
    except seams.UnseamedNondeterminism:
        raise
    except oracles.LibRaised as e:  # an exception escaping the library's public PT API
        dead = [(t.name, type(t.exc).__name__, str(t.exc)[:300]) for t in sim.tasks if t.exc is not None]
        _viol(V, "op.raised", "%s (worker exceptions: %r)" % (e, dead))
    finally:
        c.sim = None
        sim.shutdown_all()
    dead = [(t.name, type(t.exc).__name__, str(t.exc)[:300]) for t in sim.tasks if t.exc is not None]
    if dead and all(d_[1] == "StepCap" for d_ in dead) and sim.mark_value is not None and c.stats["evals_post"] > sim.mark_value:
        stats["stepcap_while_still_evaluating_history_ended"] += 1
        V[:] = [v_ for v_ in V if v_["invariant"] not in ("worker.died", "liveness.deadlock", "liveness.stepcap")]
        dead = []
    if dead and not V:
        _viol(V, "worker.died", "worker task raised: %r" % dead)
    out["sim_seconds"] = sim.now
    out["events_digest"] = digest(sim.events)
    for k, v in sim.stats.items():
        stats["sim_" + k] += v
    if not canonical:
        stats["fault_stall"] += sim.stats["stalls"]
        stats["fault_spurious_poll_timeout_long_latency"] += sim.stats["long_lat"]
        stats["fault_sender_blocked_on_full_pipe"] += sim.stats["send_blocked"]
        stats["fault_coarse_clock_equal_readings"] += sim.stats["coarse_equal"]
        stats["fault_clock_jump"] += sim.stats["clock_jumps"]
        stats["fault_msgs_with_latency_jitter"] += sim.stats["msgs"]
        if sched["speed_spread"] > 1:
            stats["fault_unequal_process_speed_runs"] += 1
    stats["poll_timeouts"] += sim.stats["poll_timeouts"]
    if want_trace:
        out["trace"] = sim.events[-60:]
    return out


def _check_snap(V, snaps, tgts, temps, stats, when, prev=None):
    for k, s in enumerate(snaps):
        if s.S.ndim != 2 or s.S.shape[0] != s.P.shape[0] or s.S.shape[0] != s.length:
            _viol(V, "return.complete", "%s: chain %d incomplete: sample shape %r, %d log-probs, chain_length %d"
                  % (when, k, s.S.shape, s.P.shape[0], s.length))
            continue
        start = 0 if prev is None else max(0, prev[k].length - 1)
        bad = oracles.check_probs_belong(s.chain, tgts[k], temps[k], start=start, label="%s: chain %d " % (when, k))
        for b in bad[:1]:
            _viol(V, "chain.probs_belong", b)
        stats["rows_checked"] += s.S.shape[0] - start


def execute(sc):
    import collections

    stats = collections.Counter()
    V = []
    ref = run_pt(sc, dict(seed=0), canonical=True, want_trace=True)
    stats.update(ref["stats"])
    V.extend(ref["violations"])
    sim_seconds = ref["sim_seconds"]
    ev_digests = [ref["events_digest"]]
    trace = ref.get("trace")
    if not V:
        for sched in sc["scheds"]:
            r = run_pt(sc, sched, canonical=False, want_trace=True)
            stats.update(r["stats"])
            sim_seconds += r["sim_seconds"]
            ev_digests.append(r["events_digest"])
            if r["violations"]:
                V.extend(r["violations"])
                trace = r.get("trace")
                break
            if not ref["timed"] and r["digest"] != ref["digest"]:
                _viol(V, "schedule.independence",
                      "returned chains differ between the canonical schedule and schedule %r (digests %s vs %s) for "
                      "identical seeds and operations %r" % (sched, ref["digest"], r["digest"], sc["ops"]))
                trace = r.get("trace")
                break
            stats["schedules_compared"] += 1
    nontrivial = (sc["n"] >= 2 and ref.get("steps", 0) >= 1 and ref.get("n_attempted", 0) >= 1
                  and len(set(ev_digests)) >= 2)
    return dict(violations=V, stats=dict(stats), digest=digest(ev_digests), nontrivial=nontrivial,
                shape="%s/%d/%s" % (sc["chain"], sc["n"], ",".join(o[0] for o in sc["ops"])),
                sim_seconds=sim_seconds, trace=trace)


# ------------------------------------------------------------------ conservation (stat jobs)
def stat_jobs(tier, seed):
    N = 12000 if tier == "thorough" else 1000
    jobs = [dict(layer="conservation", chain="gibbs", temps=[1.0, 2.5, 6.0, 15.0], swaps=3, N=N, seed=(seed * 7919 + 1) & 0x7FFFFFFF),
            dict(layer="conservation", chain="hmc", temps=[1.0, 3.0, 9.0], swaps=2, N=N, seed=(seed * 7919 + 2) & 0x7FFFFFFF),
            dict(layer="conservation", chain="metropolis", temps=[2.0, 4.0, 8.0, 16.0, 32.0], swaps=4, N=N, seed=(seed * 7919 + 3) & 0x7FFFFFFF)]
    return jobs


def run_job(job):
    """Exchange conservation: chains started from exact draws of pi^(1/T_k); swap() only. Each level's law must
    stay pi^(1/T_k): exact-null uniformity test of the probability-integral transforms, level by level."""
    import collections
    from scipy import stats as sps

    stats = collections.Counter()
    V = []
    temps = job["temps"]
    K = len(temps)
    N = int(job["N"])
    d = 2
    spec = dict(kind="gauss", d=d, s=[1.0, 2.0])
    out = np.empty((N, K, d))
    base = rctx.new_run(job["seed"], record=False)
    master = np.random.Generator(np.random.PCG64(base.child_seed(31)))
    sim_seconds = 0.0
    nsucc = 0
    for n in range(N):
        c = rctx.new_run(int(master.integers(0, 2 ** 31 - 1)), record=False)
        seams.seed_global_streams(c.seed)
        sim = kernel.Sim(n, dict(canonical=True))
        sim.keep_events = False
        mp = kernel.SimMP(sim)
        try:
            with seams.Seams(sim=sim, mp=mp):
                from inference.mcmc.parallel import ParallelTempering

                srng = np.random.Generator(np.random.PCG64(c.child_seed(9)))
                chains = []
                for k, T in enumerate(temps):
                    tg = targets.make_target(spec, tag="c%d" % k)
                    x0 = tg.draw(srng, T)
                    chains.append(build.build_chain(dict(kind=job["chain"], T=T, display=False, widths=[1.0] * d, epsilon=0.3,
                                                         bounds=None, knobs=dict(steps=3)), tg, x0))
                c.sim = sim
                pt = ParallelTempering(chains)
                for _ in range(int(job["swaps"])):
                    pt.swap()
                got = pt.return_chains()
                nsucc += int(pt.successful_swaps.sum())
                pt.shutdown()
                for k in range(K):
                    out[n, k] = np.asarray(got[k].get_sample(burn=0))[-1]
        finally:
            c.sim = None
            sim.shutdown_all()
        sim_seconds += sim.now
    tg = targets.make_target(spec)
    ntests = 3 * K * 4
    worst = None
    for k, T in enumerate(temps):
        F = tg.functionals(out[:, k, :], T)
        for name, U in F.items():
            cnt = np.histogram(np.clip(U, 0, 1), bins=np.linspace(0, 1, 21))[0]
            chi = float(((cnt - N / 20) ** 2 / (N / 20)).sum())
            pc = float(sps.chi2.sf(chi, 19))
            lo = sps.binom.cdf(cnt, N, 0.05)
            hi = sps.binom.sf(cnt - 1, N, 0.05)
            pb = float(np.minimum(1.0, 2 * np.minimum(lo, hi)).min())
            stats["functionals_tested"] += 1
            if worst is None or chi > worst[2]:
                worst = (T, name, chi)
            if pb < 1e-9 / ntests or pc < 1e-10 / ntests:
                V.append(dict(invariant="swap.conservation", key=dict(chain=job["chain"]),
                              detail="%s chains at T=%r started from exact draws of pi^(1/T), %d swap() rounds through the simulated "
                                     "workers: the chain at T=%g no longer follows pi^(1/T) (functional %s: chi2_19 = %.1f, p = %.3g, "
                                     "smallest exact bin tail %.3g, N = %d; %d exchanges accepted)"
                                     % (job["chain"], temps, job["swaps"], T, name, chi, pc, pb, N, nsucc)))
                break
        if V:
            break
    stats["conservation_replicas"] += N
    stats["probe_conservation_exchanges_accepted"] += nsucc
    return dict(violations=V, stats=dict(stats), evaluations=N, digests=[digest(job)], nontrivial_ids=[digest(job)],
                sim_seconds=sim_seconds, sample=dict(job=job, worst=worst, exchanges_accepted=nsucc))


def describe():
    return dict(
        rule=("Hypothesis-generated scenarios (chain class, 1-10 chains, temperature ladder incl. unsorted ones, chains starting at log-density -inf, single commands of 501-1501 steps, op list over take_steps/"
              "swap/advance/run_for/return_chains, fault switches, scheduler seeds); each scenario is executed under the "
              "canonical schedule and 1-2 seeded fault schedules. Non-trivial = at least 2 chains, at least one step, at "
              "least one proposed exchange and at least two distinct event logs; distinct = distinct scenario digest."),
        real_vs_stub=dict(real=["ParallelTempering (all methods)", "tempering_process", "GibbsChain/MetropolisChain/PcaChain/"
                                "HamiltonianChain", "pickle of chains and messages"],
                          stub=["multiprocessing.Process/Pipe/Event (simkit.kernel)", "time.time", "OS scheduler",
                                "entropy behind default_rng / random.choice"]),
        assumptions=["transport contract: FIFO per pipe, pickled payloads, blocking recv, timed poll, join",
                     "worker crash / broken pipes are not injected (no clause of C08 covers them)",
                     "module globals other than the two global RNG states are shared between simulated processes"],
    )
