"""C04 - parameter limits are never violated.

Monitor = every argument the wrapped posterior / gradient receives plus every stored
sample; model = the limits in force per parameter, updated by the generated limit-setting
calls (Gibbs) or fixed by the constructor bounds (PCA, HMC, ensemble).  DESIGN.md 3.3.
"""
import collections

import numpy as np
from hypothesis import strategies as st

from simkit import ctx as rctx, lifecycle as lc, oracles, seams
from simkit.driver import digest
from simkit.oracles import LibRaised, lib_call, fold_exact
from simkit.rng import sync_generators

PROPERTY = "C04"
LEVEL = "exploration"
INF = float("inf")


def plan(tier):
    if tier == "thorough":
        return dict(rounds=960, examples_per_round=100, wall_cap=3000, job_timeout=1500)
    return dict(rounds=128, examples_per_round=60, wall_cap=420, job_timeout=600)


@st.composite
def _scenario(draw, tier):
    kind = draw(st.sampled_from(["gibbs", "gibbs", "metropolis", "pca", "hmc", "hmc", "ensemble"]))
    if kind in ("gibbs", "metropolis"):
        cfg = draw(lc.sampler_config(kinds=[kind], bounds="never", max_d=3, extreme=True, gibbs_limits=False))
    else:
        cfg = draw(lc.sampler_config(kinds=[kind], bounds="always", max_d=3, extreme=True))
    ops = []
    for _ in range(draw(st.integers(1, 8))):
        if kind in ("gibbs", "metropolis"):
            k = draw(st.sampled_from(["steps", "steps", "set_bounds", "set_bounds", "nonneg_on", "nonneg_off", "remove", "bad_bounds", "restart"]))
            i = draw(st.integers(0, cfg["d"] - 1))
            if k == "steps":
                ops.append(["advance", draw(st.sampled_from([1, 2, 5, 15]))])
            elif k == "set_bounds":
                ops.append(["set_bounds", i, draw(st.sampled_from([1e-6, 1e-3, 0.5, 1.0, 7.0, 1e4])),
                            draw(st.sampled_from([0.0, 0.3, 0.5, 0.99, 1.0]))])
            elif k == "bad_bounds":
                ops.append(["bad_bounds", i, draw(st.sampled_from([0.0, 0.5, 3.0, 1e4]))])
            elif k == "restart":
                ops.append(["restart"])
            elif k == "nonneg_on":
                ops.append(["set_nonneg", i, True])
            elif k == "nonneg_off":
                ops.append(["set_nonneg", i, False])
            else:
                ops.append(["remove_bounds", i])
        else:
            k = draw(st.sampled_from(["steps", "steps", "steps", "probe", "revers", "restart", "scribble"]))
            if k == "steps":
                ops.append(["advance", draw(st.sampled_from([1, 2, 5, 12]))])
            elif k == "scribble":
                # the caller re-uses the start array it passed (fills it with values far outside the bounds), then goes on
                ops.append(["scribble"])
                ops.append(["advance", draw(st.sampled_from([1, 2, 5]))])
            elif k == "probe":
                ops.append(["probe", draw(st.integers(0, 2 ** 16))])
            elif k == "restart":
                ops.append(["restart"])
            elif kind == "hmc":
                ops.append(["revers", draw(st.integers(0, 2 ** 16)), draw(st.integers(1, 6))])
    return dict(cfg=cfg, ops=ops, stray_start=(draw(st.integers(1, 64)) if cfg["bounds"] is not None and draw(st.integers(0, 11)) == 0 else 0),
                faults=dict(tail_p=draw(st.sampled_from([0.0, 0.05, 0.2])), edge_u_p=draw(st.sampled_from([0.0, 0.05]))))


def scenarios(tier):
    return _scenario(tier)


def _viol(V, inv, detail, **key):
    V.append(dict(invariant=inv, detail=detail, key=key))


class Limits:
    """Limits in force per parameter: [lo, hi] (either may be infinite)."""

    def __init__(self, d, box=None):
        self.bounds = [None] * d
        self.nonneg = [False] * d
        if box is not None:
            for i in range(d):
                self.bounds[i] = (float(box[0][i]), float(box[1][i]))

    def eff(self, i):
        lo, hi = -INF, INF
        if self.bounds[i] is not None:
            lo, hi = self.bounds[i]
        if self.nonneg[i]:
            lo = max(lo, 0.0)
        return lo, hi

    def tol(self, i):
        lo, hi = self.eff(i)
        fin = [abs(v) for v in (lo, hi) if np.isfinite(v)]
        if np.isfinite(lo) and np.isfinite(hi):
            fin.append(hi - lo)
        return 4 * float(np.spacing(max(fin))) if fin else 0.0

    def outside(self, theta):
        """index, value, limits of the first coordinate outside the closed limits (or None)."""
        for i in range(len(self.bounds)):
            lo, hi = self.eff(i)
            if lo == -INF and hi == INF:
                continue
            t = self.tol(i)
            v = float(theta[i])
            if not (lo - t <= v <= hi + t):
                return i, v, lo, hi
        return None

    def any(self):
        return any(b is not None for b in self.bounds) or any(self.nonneg)


def check_rows_inside(V, h, L, start, what):
    S, _ = h.rows()
    for k in range(start, S.shape[0]):
        if not np.all(np.isfinite(S[k])):
            continue
        o = L.outside(S[k])
        if o is not None:
            _viol(V, "sample.inside", "%s: stored sample %d has parameter %d = %r outside the limits [%r, %r] in force (%s)"
                  % (h.kind, k, o[0], o[1], o[2], o[3], what))
            return S.shape[0]
    return S.shape[0]


def gibbs_fold_exact(V, h, L, c, seq0, stats):
    """Every evaluated Gibbs proposal is the exact fold of the raw normal draw that preceded it."""
    draws = []
    for nm, log in c.rng_logs.items():
        if nm.startswith(h.label + ".") or nm.startswith(h.label + "'"):
            for (seq, meth, args, res) in log:
                if seq > seq0 and meth == "normal" and np.ndim(res) == 0:
                    draws.append((seq, float(res)))
    draws.sort()
    evs = [(seq, th) for (seq, kind, th, _) in c.post_logs.get(h.label, []) if seq > seq0 and kind == "post"]
    di = 0
    last = None
    for seq, th in evs:
        while di < len(draws) and draws[di][0] < seq:
            last = draws[di][1]
            di += 1
        if last is None:
            continue
        ok = False
        for j in range(h.d):
            lo, hi = L.eff(j)
            if np.isfinite(lo) and np.isfinite(hi):
                want, nref = fold_exact(last, lo, hi)
                tol = 8 * np.finfo(float).eps * max(abs(last), abs(lo), abs(hi))
                if nref >= 2:
                    stats["probe_fold_count_ge_2"] += 1
            elif np.isfinite(lo):  # non-negative only: |x|
                want = abs(last) if lo == 0.0 else last
                tol = 8 * np.finfo(float).eps * abs(last)
            else:
                want = last
                tol = 0.0
            if abs(float(th[j]) - want) <= tol:
                ok = True
                break
        stats["fold_checked"] += 1
        if not ok:
            _viol(V, "fold.exact", "gibbs: raw proposal %r was evaluated as %r, which is not the symmetric fold of the raw value "
                  "into the limits in force %r for any parameter" % (last, th.tolist(), [L.eff(j) for j in range(h.d)]))
            return


def probe_bounds(V, h, L, seed, stats):
    """Bounds.reflect / reflect_momenta against the exact rational fold (multi-wrap overshoots)."""
    b = getattr(h.chain, "bounds", None)
    if b is None:
        return
    g = np.random.Generator(np.random.PCG64([seed, 3]))
    lo = np.array([L.eff(i)[0] for i in range(h.d)])
    hi = np.array([L.eff(i)[1] for i in range(h.d)])
    w = hi - lo
    for _ in range(6):
        mode = g.integers(0, 4)
        if mode == 0:
            th = lo + w * g.random(h.d)  # inside: identity
        elif mode == 1:
            th = lo + w * (g.random(h.d) * 6 - 3)
        elif mode == 2:
            th = lo + w * g.normal(size=h.d) * 10.0 ** g.integers(1, 9)
        else:
            th = np.where(g.random(h.d) < 0.5, lo, hi) + w * g.integers(-3, 4, size=h.d)  # exactly on wall images
        try:
            r1 = np.asarray(lib_call("Bounds.reflect", b.reflect, th.copy()), dtype=float)
            r2, sg = lib_call("Bounds.reflect_momenta", b.reflect_momenta, th.copy())
            r2, sg = np.asarray(r2, dtype=float), np.asarray(sg, dtype=float)
        except LibRaised as e:
            _viol(V, "fold.raised", str(e))
            return
        stats["bounds_probes"] += 1
        for i in range(h.d):
            want, nref = fold_exact(th[i], lo[i], hi[i])
            tol = 8 * np.finfo(float).eps * max(abs(th[i]), abs(lo[i]), abs(hi[i]))
            if nref >= 2:
                stats["probe_fold_count_ge_2"] += 1
            for nm, got in (("reflect", r1[i]), ("reflect_momenta", r2[i])):
                if not (abs(got - want) <= tol):
                    _viol(V, "fold.exact", "Bounds.%s(%r) with limits [%r, %r] gave %r, the exact symmetric fold is %r (%d reflections)"
                          % (nm, float(th[i]), lo[i], hi[i], float(got), want, nref))
                    return
                if not (lo[i] - L.tol(i) <= got <= hi[i] + L.tol(i)):
                    _viol(V, "fold.inside", "Bounds.%s(%r) = %r lies outside [%r, %r]" % (nm, float(th[i]), float(got), lo[i], hi[i]))
                    return
            if lo[i] <= th[i] <= hi[i] and r1[i] != th[i] and abs(r1[i] - th[i]) > tol:
                _viol(V, "fold.identity", "Bounds.reflect moved the interior point %r to %r" % (float(th[i]), float(r1[i])))
                return
            # momentum sign: -1 exactly for an odd number of reflections (skip points on a wall image)
            x = (th[i] - lo[i]) / w[i]
            if abs(x - round(x)) > 1e-9:
                wantsg = -1.0 if nref % 2 else 1.0
                if sg[i] != wantsg:
                    _viol(V, "fold.momentum", "reflect_momenta(%r) in [%r, %r]: %d reflections but momentum factor %r"
                          % (float(th[i]), lo[i], hi[i], nref, float(sg[i])))
                    return


def hmc_reversibility(V, h, L, seed, n, stats):
    """A bounded trajectory run forward, momentum negated, and run again returns to its start."""
    ch = h.chain
    if not hasattr(ch, "run_leapfrog"):
        return
    g = np.random.Generator(np.random.PCG64([seed, 4]))
    lo = np.array([L.eff(i)[0] for i in range(h.d)])
    hi = np.array([L.eff(i)[1] for i in range(h.d)])
    w = hi - lo
    t0 = lo + w * g.random(h.d)
    r0 = g.normal(size=h.d) * g.choice([0.3, 1.0, 3.0])
    try:
        eps = float(ch.ES.epsilon)
    except Exception:  # noqa
        return
    flat = h.cfg["target"]["kind"] == "boxpower" and h.cfg["target"].get("p", 0.0) == 0.0
    if not flat:
        s = np.array(h.cfg["target"].get("s", [1.0] * h.d), dtype=float)
        im = h.cfg["knobs"].get("inverse_mass")
        imax = float(np.max(np.abs(np.asarray(im)))) if im is not None else 1.0
        if eps * eps * imax / float(np.min(s)) ** 2 / h.T > 0.5 or h.cfg["target"]["kind"] != "truncgauss":
            return
    if h.cfg["knobs"].get("finite_diff"):
        return
    if np.ndim(h.cfg["knobs"].get("inverse_mass")) == 2:
        # with a non-diagonal mass matrix flipping one momentum component does not reverse the
        # trajectory; C04 only states the component-flip rule (probed directly in probe_bounds),
        # the consequence for reversibility belongs to C01
        return
    c = rctx.get()
    rec = c.record
    try:
        t1, r1 = lib_call("run_leapfrog", ch.run_leapfrog, t0.copy(), r0.copy(), n)
        t1, r1 = np.array(t1, dtype=float), np.array(r1, dtype=float)
        t2, r2 = lib_call("run_leapfrog", ch.run_leapfrog, t1.copy(), -r1.copy(), n)
    except LibRaised as e:
        _viol(V, "hmc.raised", str(e))
        return
    stats["hmc_reversibility_checked"] += 1
    im = h.cfg["knobs"].get("inverse_mass")
    if im is None:
        v0 = r0
    elif np.ndim(im) == 2:
        v0 = np.asarray(im, dtype=float) @ r0
    else:
        v0 = np.asarray(im, dtype=float) * r0
    excursion = float(np.max(np.abs(t0)) + np.max(w) + eps * n * np.max(np.abs(v0)) * 2)
    tol_t = 256 * np.finfo(float).eps * excursion * (n + 2)
    tol_r = 1e-9 * (1 + float(np.max(np.abs(r0))))
    if tol_t > 1e-3 * float(np.min(w)):
        # the raw excursion is so long that floating point no longer resolves positions inside the box
        # (nor the parity of the fold count): nothing meaningful to compare
        stats["hmc_reversibility_skipped_unresolvable"] += 1
        stats["hmc_reversibility_checked"] -= 1
        return
    if not flat:
        smin = float(np.min(np.array(h.cfg["target"].get("s", [1.0] * h.d), dtype=float)))
        tol_t *= 10
        tol_r += 100 * (eps / (smin ** 2 * h.T)) * tol_t + 1e-7 * (1 + float(np.max(np.abs(r0))))
    if np.max(np.abs(np.asarray(t2) - t0)) > tol_t or np.max(np.abs(np.asarray(r2) + r0)) > tol_r:
        _viol(V, "hmc.reversible", "bounded leapfrog: from t=%r r=%r, %d steps forward, momentum negated, %d steps again ends at "
              "t=%r r=%r instead of the start with reversed momentum (a momentum component is not flipped exactly when its "
              "coordinate is folded an odd number of times); tolerances %.3g / %.3g"
              % (t0.tolist(), r0.tolist(), n, n, np.asarray(t2).tolist(), np.asarray(r2).tolist(), tol_t, tol_r))


def execute(sc):
    stats = collections.Counter()
    V = []
    cfg = sc["cfg"]
    c = rctx.new_run(cfg["seed"], faults=sc["faults"])
    seams.seed_global_streams(cfg["seed"])
    with seams.Seams(clock=seams.FakeClock()):
        inputs = None
        if sc.get("stray_start") and cfg.get("bounds") is not None:
            # a start that is (partly) outside the bounds given with it: either the constructor refuses it, or whatever
            # it builds still keeps every recorded sample and every evaluation inside
            inputs = lc.make_inputs(cfg)
            hi_ = np.asarray(cfg["bounds"][1], dtype=float)
            wd_ = hi_ - np.asarray(cfg["bounds"][0], dtype=float)
            st_ = inputs["start"]
            if not isinstance(st_, np.ndarray):
                st_ = inputs["start"] = np.array(st_, dtype=float)
            if not st_.flags.writeable:
                st_ = inputs["start"] = st_.copy()
            if st_.ndim == 2:
                st_[int(sc["stray_start"]) % st_.shape[0], 0] = hi_[0] + 0.5 * wd_[0]
            else:
                st_[0] = hi_[0] + 0.5 * wd_[0]
            stats["fault_start_outside_the_bounds"] += 1
        try:
            h = lc.Harnessed(cfg, "s0", inputs=inputs)
        except LibRaised as e:
            if inputs is not None:
                stats["probe_start_outside_refused"] += 1
                return dict(violations=[], stats=dict(stats), digest=digest(sc), nontrivial=True, shape=cfg["kind"], sim_seconds=0.0)
            return dict(violations=[dict(invariant="op.raised", detail=str(e), key={})], stats={}, digest=digest(sc),
                        nontrivial=False, shape=cfg["kind"], sim_seconds=0.0)
        L = Limits(h.d, cfg["bounds"])
        mon_hits = []
        armed = [True]

        def monitor(kind, tag, th):
            if tag != h.label or not armed[0] or mon_hits:
                return
            stats["evaluations_monitored"] += 1
            if not np.all(np.isfinite(th)):
                # the trajectory overflowed (e.g. infinite gradient at a wall): outside floating point,
                # not a statement about limits
                stats["probe_nonfinite_evaluation_point_ignored"] += 1
                return
            o = L.outside(th)
            if o is not None:
                mon_hits.append((kind, th.copy(), o))

        c.monitors.append(monitor)
        checked_rows = check_rows_inside(V, h, L, 0, "after construction")
        for op in sc["ops"]:
            if V:
                break
            name = op[0]
            stats["op_" + name] += 1
            seq0 = c.seq
            try:
                if name == "advance":
                    lc.op_advance(h, op[1])
                elif name == "set_bounds":
                    i, w, frac = op[1], op[2], op[3]
                    cur = float(np.asarray(h.chain.get_parameter(i, burn=0))[-1])
                    w = max(w, abs(cur) * 1e-6)
                    lo = cur - w * frac
                    hi = lo + w
                    if not (lo <= cur <= hi) or (L.nonneg[i] and hi <= 0):
                        continue
                    lib_call("set_boundaries", h.chain.set_boundaries, i, (lo, hi))
                    L.bounds[i] = (lo, hi)
                    stats["limit_calls"] += 1
                elif name == "bad_bounds":
                    # a call with lower >= upper is rejected with a warning: the limits in force must stay in force
                    i = op[1]
                    cur = float(np.asarray(h.chain.get_parameter(i, burn=0))[-1])
                    lib_call("set_boundaries(rejected)", h.chain.set_boundaries, i, (cur + op[2], cur - op[2]))
                    stats["fault_rejected_limit_call"] += 1
                    stats["limit_calls"] += 1
                elif name == "set_nonneg":
                    i, flag = op[1], op[2]
                    cur = float(np.asarray(h.chain.get_parameter(i, burn=0))[-1])
                    if flag and (cur < 0 or (L.bounds[i] is not None and L.bounds[i][1] <= 0)):
                        continue
                    lib_call("set_non_negative", h.chain.set_non_negative, i, flag)
                    L.nonneg[i] = bool(flag)
                    stats["limit_calls"] += 1
                    if L.bounds[i] is not None:
                        stats["probe_nonneg_call_while_bounded"] += 1
                elif name == "remove_bounds":
                    lib_call("set_boundaries(remove)", h.chain.set_boundaries, op[1], (0.0, 1.0), remove=True)
                    L.bounds[op[1]] = None
                    stats["limit_calls"] += 1
                    if L.nonneg[op[1]]:
                        stats["probe_remove_bounds_while_nonneg"] += 1
                elif name == "restart":
                    # limits given at construction / set on a parameter stay in force across save and load
                    try:
                        old_chain = lc.op_restart(h, "r%d" % stats["fault_crash_restart"])
                    except LibRaised:
                        stats["restart_failed_history_ended"] += 1
                        break
                    sync_generators(h.chain, old_chain)
                    stats["fault_crash_restart"] += 1
                elif name == "scribble":
                    st_arr = h.inputs["start"]
                    if isinstance(st_arr, np.ndarray) and st_arr.flags.writeable and h.cfg.get("bounds") is not None:
                        hi_ = np.asarray(h.cfg["bounds"][1], dtype=float)
                        wd_ = hi_ - np.asarray(h.cfg["bounds"][0], dtype=float)
                        st_arr[...] = np.broadcast_to(hi_ + 5.0 * wd_ + 1.0, st_arr.shape).astype(st_arr.dtype)
                        stats["fault_caller_overwrites_start_array"] += 1
                elif name == "probe":
                    armed[0] = False
                    probe_bounds(V, h, L, op[1], stats)
                    armed[0] = True
                elif name == "revers":
                    armed[0] = False
                    hmc_reversibility(V, h, L, op[1], op[2], stats)
                    armed[0] = True
            except lc.StepExhausted:
                stats["hmc_step_exhausted"] += 1
                break
            except rctx.Runaway:
                stats["op_runaway_history_ended"] += 1
                break
            except LibRaised as e:
                _viol(V, "op.raised", "%s: %s" % (h.kind, e))
                break
            if mon_hits:
                kind, th, o = mon_hits[0]
                _viol(V, "eval.inside", "%s: the %s was evaluated at %r: parameter %d = %r lies outside the limits [%r, %r] in "
                      "force (during %r)" % (h.kind, "posterior" if kind == "post" else "gradient", th.tolist(), o[0], o[1], o[2], o[3], op))
                break
            if name == "advance":
                try:
                    checked_rows = check_rows_inside(V, h, L, checked_rows, "after %r" % (op,))
                except LibRaised as e:
                    _viol(V, "op.raised", str(e))
                    break
                if h.kind == "gibbs" and L.any() and not V:
                    gibbs_fold_exact(V, h, L, c, seq0, stats)
            else:
                # rows recorded before a limit came into force are exempt
                checked_rows = h.rows()[0].shape[0]
            # keep the logs small
            for log in c.rng_logs.values():
                del log[:]
            for log in c.post_logs.values():
                del log[:]
    lc.cleanup_scratch()
    for k2, v in c.stats.items():
        stats[k2] += v
    nontrivial = stats["evaluations_monitored"] > 0 and (cfg["bounds"] is not None or stats["limit_calls"] > 0)
    return dict(violations=V, stats=dict(stats), digest=digest(sc), nontrivial=bool(nontrivial),
                shape="%s/%s" % (cfg["kind"], ",".join(o[0] for o in sc["ops"])), sim_seconds=0.0)


def describe():
    return dict(
        rule=("Hypothesis-generated histories: boxes of any magnitude/sign/width (1e-6..1e6, centres to 1e9), proposal widths / "
              "step sizes up to 1e6 x the box, tail-draw injection (normal draws 10..1e12 sigma out), finite-difference HMC, every "
              "interleaving of set_boundaries / remove / set_non_negative(True|False) with steps on Gibbs and Metropolis chains; "
              "PCA, HMC and ensemble with constructor bounds (Bounds object or pair of arrays); direct multi-wrap probes of "
              "Bounds.reflect / reflect_momenta against an exact rational fold; forward/backward bounded leapfrog. Non-trivial = "
              "limits in force while at least one evaluation was monitored; distinct = scenario digest."),
        real_vs_stub=dict(real=["Parameter proposals and limit setters", "Bounds.reflect/reflect_momenta", "PcaChain, HamiltonianChain "
                                "(bounded leapfrog, finite_diff), EnsembleSampler with bounds"],
                          stub=["entropy behind default_rng (with tail-draw / edge-uniform injection)", "time.time"]),
        assumptions=["tolerance inside: 4 ulp at the scale of the limits; fold exactness: 8 eps max(|raw|,|lo|,|hi|)",
                     "limits are only set where they contain the parameter's current value (as a start point must be inside Bounds)"],
    )
