"""C18 - acquisition functions and proposals (scoped claim: the *history* clauses).

Machine: GpOptimiser driven through seeded propose / add histories; model = list of rows.
Decided here: every proposal inside the search bounds, an added evaluation becomes part
of the data the next model is fitted to and updates the incumbent, caller arrays are left
untouched - for every generated sequence of calls.  The formula clauses (EI / UCB / max
variance / gradients) are pure functions and are attached only as spot-oracles at the
regressor states the histories reach (see DESIGN.md 3.8).
"""
import collections
import math

import numpy as np
from hypothesis import strategies as st
from scipy import integrate

from simkit import ctx as rctx, seams
from simkit.driver import digest
from simkit.oracles import LibRaised, lib_call

PROPERTY = "C18"
LEVEL = "exploration"


def plan(tier):
    if tier == "thorough":
        return dict(rounds=320, examples_per_round=20, wall_cap=3300, job_timeout=3000)
    return dict(rounds=64, examples_per_round=16, wall_cap=400, job_timeout=900)


@st.composite
def _scenario(draw, tier):
    d = draw(st.sampled_from([1, 1, 2]))
    n0 = draw(st.integers(3, 6))
    if draw(st.integers(0, 9)) == 0:
        # a well-advanced optimisation: dozens of evaluations already held
        n0 = draw(st.sampled_from([24, 25, 26, 33, 40]))
        d = draw(st.sampled_from([1, 2, 3]))
    ops = []
    for _ in range(draw(st.integers(1, 4))):
        k = draw(st.sampled_from(["propose_add", "propose_add", "add_random", "add_duplicate", "add_outlier", "propose", "decoy", "anneal", "lik_query", "retune"]))
        ops.append([k, draw(st.integers(0, 2 ** 16))])
    return dict(
        d=d, n0=n0, seed=draw(st.integers(0, 2 ** 32 - 1)),
        acq=draw(st.sampled_from(["EI", "EI", "UCB", "MaxVar", "default"])),
        optimizer=draw(st.sampled_from(["bfgs", "bfgs", "diffev"])),
        y_err=draw(st.booleans()), n_processes=draw(st.sampled_from([1, 1, 2, 3])),
        x_form=draw(st.sampled_from(["2d", "2d", "1d", "list", "int"])), bounds_form=draw(st.sampled_from(["tuples", "tuples", "ndarray", "lists"])),
        newx_form=draw(st.sampled_from(["row", "flat", "scalar", "list"])),
        lo=draw(st.sampled_from([0.0, -2.0, 10.0])), width=draw(st.sampled_from([1.0, 4.0])),
        func=draw(st.sampled_from(["sin", "quad", "bump", "ramp"])), kappa=draw(st.sampled_from([0.5, 2.0])),
        # evaluations sitting exactly on the search bounds (the corners of the box), as a grid or a previous boundary proposal leaves them
        edge_data=draw(st.integers(0, 3)) == 0,
        # hyper-parameters of the first model given by the caller (as an array, a python list or a tuple) instead of fitted
        hyperpars_form=draw(st.sampled_from([None, None, None, None, "ndarray", "list", "tuple"])),
        ops=ops,
    )


def scenarios(tier):
    return _scenario(tier)


def _viol(V, inv, detail, **key):
    V.append(dict(invariant=inv, detail=detail, key=key))


def _objective(sc, x):
    u = (np.asarray(x, dtype=float).reshape(-1) - sc["lo"]) / sc["width"]
    if sc["func"] == "sin":
        return float(np.sum(np.sin(5.0 * u)) + 0.3 * np.sum(u))
    if sc["func"] == "quad":
        return float(-np.sum((u - 0.3) ** 2) * 4.0)
    if sc["func"] == "ramp":
        return float(np.sum(u) * 2.0)  # rises towards the upper corner of the box: the best point is on the bounds
    return float(np.exp(-np.sum((u - 0.7) ** 2) / 0.02))


def _snap(a):
    return None if a is None else (a.shape, a.dtype.str, a.tobytes())


def ref_ln_ei(mu, sig, ymax):
    """log E[max(f - ymax, 0)], f ~ N(mu, sig^2), by quadrature in a form that is smooth in
    both the ordinary and the far-tail regime (independent of the code's erfcx route)."""
    a = (ymax - mu) / sig
    if a >= 0:
        I, _ = integrate.quad(lambda s: s * math.exp(-a * s - 0.5 * s * s), 0.0, np.inf, epsabs=0, epsrel=1e-11, limit=200)
        return math.log(sig) - 0.5 * a * a - 0.5 * math.log(2 * math.pi) + math.log(I)
    Z = -a
    I, _ = integrate.quad(lambda s: s * math.exp(-0.5 * (s - Z) ** 2), 0.0, Z + 40.0, epsabs=0, epsrel=1e-11, limit=200,
                          points=[Z] if Z < 40 else None)
    return math.log(sig) - 0.5 * math.log(2 * math.pi) + math.log(I)


def spot_oracles(V, opt, sc, bounds, g, stats, first=None):
    acq = opt.acquisition
    gp = opt.gp
    X = np.asarray(opt.x, dtype=float)
    ymax = float(np.max(opt.y))
    pts = []
    if first is not None:
        pts.append(np.array(first, dtype=float).reshape(-1))  # the very first query after an update: the point just added
    lo = np.array([b[0] for b in bounds])
    hi = np.array([b[1] for b in bounds])
    for _ in range(3):
        pts.append(lo + (hi - lo) * g.random(sc["d"]))
    # (near-)coincident data points make the covariance matrix numerically singular: predictions stay
    # usable but derivatives (analytic and numerical alike) are dominated by round-off
    Xs = X.reshape(len(X), -1) / (hi - lo)
    dmin = min([float(np.max(np.abs(Xs[a] - Xs[b]))) for a in range(len(Xs)) for b in range(a)] or [1.0])
    ill_conditioned = dmin < 2e-3
    worst = int(np.argmin(opt.y))
    for off in (1e-3, 3e-3, 1e-2, 3e-2):
        p = X[worst] + off * (hi - lo) * g.choice([-1.0, 1.0], size=sc["d"])
        pts.append(np.clip(p, lo, hi))
    for x in pts:
        try:
            mu, sg = gp(x)
            mu, sg = float(np.asarray(mu).reshape(-1)[0]), float(np.asarray(sg).reshape(-1)[0])
            val = float(np.asarray(lib_call("acquisition.__call__", acq, x)).reshape(-1)[0])
            of = float(np.asarray(lib_call("acquisition.opt_func", acq.opt_func, x)).reshape(-1)[0])
            ofg, grad = lib_call("acquisition.opt_func_gradient", acq.opt_func_gradient, x)
            ofg = float(np.asarray(ofg).reshape(-1)[0])
            grad = np.asarray(grad, dtype=float).reshape(-1)
        except LibRaised as e:
            _viol(V, "acq.raised", str(e))
            return
        if not (np.isfinite(mu) and sg > 0 and np.isfinite(sg)):
            continue
        stats["spot_points"] += 1
        if sc["acq"] == "EI":
            Z = (mu - ymax) / sg
            if Z < -3:
                stats["probe_far_tail_branch_Z_below_minus_3"] += 1
            if Z < -200 or Z > 30:
                continue
            ref = ref_ln_ei(mu, sg, ymax)
            if abs(-of - ref) > 1e-6 * max(1.0, abs(ref)):
                _viol(V, "acq.ei_value", "ExpectedImprovement objective at x=%r (mu=%.9g, sigma=%.9g, y_max=%.9g, Z=%.4f): -opt_func = %.12g "
                      "but log E[max(f-y_max,0)] = %.12g by quadrature" % (x.tolist(), mu, sg, ymax, Z, -of, ref))
                return
            if ref > -700 and abs(val - math.exp(ref)) > 1e-6 * math.exp(ref):
                _viol(V, "acq.ei_value", "ExpectedImprovement(x=%r) = %.12g, E[max(f-y_max,0)] = %.12g (Z=%.4f)" % (x.tolist(), val, math.exp(ref), Z))
                return
        elif sc["acq"] == "UCB":
            want = mu + sc["kappa"] * sg
            if abs(val - want) > 1e-9 * max(1.0, abs(want)) or abs(of + want) > 1e-9 * max(1.0, abs(want)):
                _viol(V, "acq.ucb_value", "UpperConfidenceBound at %r: %r / opt_func %r, mean + kappa*sd = %r" % (x.tolist(), val, of, want))
                return
        else:
            if abs(val - sg * sg) > 1e-9 * max(1e-300, sg * sg) or abs(of + sg * sg) > 1e-9 * max(1e-300, sg * sg):
                _viol(V, "acq.maxvar_value", "MaxVariance at %r: %r / opt_func %r, predictive variance %r" % (x.tolist(), val, of, sg * sg))
                return
        if abs(ofg - of) > 1e-9 * max(1.0, abs(of)):
            _viol(V, "acq.gradient_value", "%s: opt_func_gradient returns objective %r but opt_func returns %r at %r" % (sc["acq"], ofg, of, x.tolist()))
            return
        # true spatial gradient by 4th-order central differences at two step sizes; the check is only
        # made where the two agree (i.e. where finite differences are themselves reliable - tiny
        # predictive variances are differences of O(1) numbers and make them noisy)
        w = hi - lo
        if ((x - 2e-4 * w) < lo).any() or ((x + 2e-4 * w) > hi).any() or grad.shape[0] != sc["d"]:
            continue
        if ill_conditioned:
            stats["gradient_checks_skipped_duplicate_data"] += 1
            continue
        if sg * sg < 1e-5 * float(np.var(opt.y)) + 1e-300:
            # a predictive variance this far below the signal variance is k** - k^T K^-1 k after
            # catastrophic cancellation (K is ill-conditioned next to data / near-duplicates): both the
            # analytic and the numerical derivative are then dominated by round-off, nothing to compare
            stats["gradient_checks_skipped_tiny_variance"] += 1
            continue

        def fd(h):
            out = np.zeros(sc["d"])
            for i in range(sc["d"]):
                e = np.zeros(sc["d"])
                e[i] = h[i]
                f = [float(np.asarray(acq.opt_func(x + m * e)).reshape(-1)[0]) for m in (1, -1, 2, -2)]
                out[i] = (8 * (f[0] - f[1]) - (f[2] - f[3])) / (12 * h[i])
            return out

        n1, n2 = fd(1e-4 * w), fd(1e-5 * w)
        floor = 1e-6 * max(1.0, abs(of)) / float(np.min(w))
        if not (np.all(np.isfinite(n1)) and np.all(np.isfinite(n2))) or (np.abs(n1 - n2) > 1e-4 * (np.abs(n1) + floor)).any():
            stats["gradient_checks_skipped"] += 1
            continue
        stats["gradient_checks"] += 1
        if (np.abs(grad - n1) > 2e-2 * (np.abs(n1) + floor)).any():
            _viol(V, "acq.gradient", "%s: opt_func_gradient gives gradient %r at %r, central differences of opt_func give %r (and %r at a "
                  "ten times smaller step)" % (sc["acq"], grad.tolist(), x.tolist(), n1.tolist(), n2.tolist()))
            return


def execute(sc):
    stats = collections.Counter()
    V = []
    c = rctx.new_run(sc["seed"], record=False)
    seams.seed_global_streams(sc["seed"])
    g = np.random.Generator(np.random.PCG64(c.child_seed(21)))
    d = sc["d"]
    bounds = [(sc["lo"], sc["lo"] + sc["width"])] * d
    lo = np.array([b[0] for b in bounds])
    hi = np.array([b[1] for b in bounds])
    with seams.Seams(clock=None, tripwires=True, sync_pool=True):
        from inference.gp import GpOptimiser, ExpectedImprovement, UpperConfidenceBound, MaxVariance

        X0 = lo + (hi - lo) * g.random((sc["n0"], d))
        if sc["x_form"] == "int":
            # integer-valued locations held in an integer-dtype array (as in the library's own examples)
            K = max(8, int(sc["n0"]))  # lattice large enough for n0 distinct locations
            lo, hi = np.full(d, -float(K)), np.full(d, float(K))
            bounds = [(-float(K), float(K))] * d
            sc = dict(sc, lo=-float(K), width=2.0 * K)
            pts = g.permutation(2 * K + 1)[: sc["n0"]] - K
            X0 = np.stack([np.roll(pts, k) for k in range(d)], axis=1).astype(float)
        if sc.get("edge_data") and sc["x_form"] != "int" and sc["n0"] >= 3:
            X0[0] = hi
            X0[1] = lo
            stats["fault_evaluations_exactly_on_the_bounds"] += 1
        y0 = np.array([_objective(sc, x) for x in X0])
        e0 = np.full(sc["n0"], 0.05) if sc["y_err"] else None
        if sc["n0"] >= 24:
            stats["probe_optimiser_holds_24_or_more_evaluations"] += 1
        if sc["x_form"] == "int":
            x_in = X0.astype(np.int64)
        elif d == 1 and sc["x_form"] == "1d":
            x_in = X0[:, 0].copy()
        elif sc["x_form"] == "list":
            x_in = [row.copy() for row in X0]
        else:
            x_in = X0.copy()
        y_in = y0.copy()
        e_in = None if e0 is None else e0.copy()
        snaps = dict(x=_snap(x_in) if isinstance(x_in, np.ndarray) else [_snap(r) for r in x_in], y=_snap(y_in), e=_snap(e_in))
        kw = {}
        if sc["acq"] != "default":
            acq = dict(EI=ExpectedImprovement, UCB=UpperConfidenceBound, MaxVar=MaxVariance)[sc["acq"]]
            kw["acquisition"] = acq(kappa=sc["kappa"]) if sc["acq"] == "UCB" else acq
        else:
            sc = dict(sc, acq="EI")  # the documented default is expected improvement
        bf = sc.get("bounds_form", "tuples")
        if bf == "ndarray":
            b_in = np.array(bounds, dtype=float)
        elif bf == "lists":
            b_in = [list(b) for b in bounds]
        else:
            b_in = list(bounds)
        b_snap = _snap(b_in) if isinstance(b_in, np.ndarray) else repr(b_in)
        hp_form = sc.get("hyperpars_form")
        if hp_form:
            # (default model: constant mean, squared-exponential kernel: mean, log-amplitude, one log-length-scale per dimension)
            hp = [float(np.mean(y0)), float(np.log(np.std(y0) + 0.1))] + [float(np.log(0.3 * (hi[k] - lo[k]))) for k in range(d)]
            kw["hyperpars"] = np.array(hp) if hp_form == "ndarray" else (list(hp) if hp_form == "list" else tuple(hp))
            hp_snap = repr(kw["hyperpars"])
        try:
            opt = lib_call("GpOptimiser()", GpOptimiser, x_in, y_in, bounds=b_in, y_err=e_in,
                           optimizer=sc["optimizer"], n_processes=int(sc.get("n_processes", 1)), **kw)
            if hp_form:
                stats["fault_hyperparameters_given_as_" + hp_form] += 1
                if repr(kw["hyperpars"]) != hp_snap:
                    _viol(V, "caller.arrays", "the hyper-parameter values passed by the caller were modified")
        except LibRaised as e:
            _viol(V, "op.raised", str(e))
            opt = None
        kw.pop("hyperpars", None)
        mX, my, me = [r.copy() for r in X0], list(y0), (None if e0 is None else list(e0))

        def inputs_ok(when):
            now = dict(x=_snap(x_in) if isinstance(x_in, np.ndarray) else [_snap(r) for r in x_in], y=_snap(y_in), e=_snap(e_in))
            if (_snap(b_in) if isinstance(b_in, np.ndarray) else repr(b_in)) != b_snap:
                _viol(V, "caller.arrays", "%s: the search bounds passed by the caller were modified: now %r, given %r"
                      % (when, np.asarray(b_in).tolist(), [list(b) for b in bounds]))
                return
            for k in now:
                if now[k] != snaps[k]:
                    _viol(V, "caller.arrays", "%s: the caller's %s array passed to GpOptimiser was modified (shape/bytes changed: %r -> %r)"
                          % (when, k, snaps[k][0] if isinstance(snaps[k], tuple) else "list", now[k][0] if isinstance(now[k], tuple) else "list"))
                    return

        def model_ok(when):
            try:
                ox, oy = np.asarray(opt.x, dtype=float), np.asarray(opt.y, dtype=float)
                gx, gy = np.asarray(opt.gp.x, dtype=float), np.asarray(opt.gp.y, dtype=float)
                inc = float(opt.acquisition.mu_max)
            except Exception as e:  # noqa
                _viol(V, "data.model", "%s: cannot read the optimiser's data set: %s" % (when, e))
                return
            M = np.array(mX).reshape(len(mX), d)
            if ox.reshape(len(ox), -1).shape != M.shape or not np.array_equal(ox.reshape(M.shape), M) or not np.array_equal(oy.reshape(-1), np.array(my)):
                _viol(V, "data.model", "%s: GpOptimiser data (%d rows) is not the initial data plus the added evaluations in order (%d rows)"
                      % (when, len(oy.reshape(-1)), len(my)))
                return
            if gx.reshape(len(gx), -1).shape != M.shape or not np.array_equal(gx.reshape(M.shape), M) or not np.array_equal(gy.reshape(-1), np.array(my)):
                _viol(V, "data.refit", "%s: the regressor behind the next proposal was fitted to %d points, the data set has %d"
                      % (when, len(gy.reshape(-1)), len(my)))
                return
            if me is not None:
                oe = np.asarray(opt.y_err, dtype=float).reshape(-1)
                if not np.array_equal(oe, np.array(me)):
                    _viol(V, "data.model", "%s: y_err of the optimiser is not the initial errors plus the added ones" % when)
                    return
            ag = getattr(opt.acquisition, "gp", None)
            if ag is not None and ag is not opt.gp:
                try:
                    same = np.array_equal(np.asarray(ag.y, dtype=float).reshape(-1), gy.reshape(-1))
                except Exception:  # noqa
                    same = False
                if not same:
                    _viol(V, "data.refit", "%s: the acquisition function is evaluating a regressor fitted to other data than this optimiser's" % when)
                    return
            # "the data the next model is fitted to": the hyper-parameter search limits the fit works within are estimated
            # from the data; for the default (class-valued) kernel and mean they are a function of the current data alone
            try:
                cov2, mean2 = type(opt.gp.cov)(), type(opt.gp.mean)()
                cov2.pass_spatial_data(np.array(opt.gp.x, dtype=float, copy=True))
                mean2.pass_spatial_data(np.array(opt.gp.x, dtype=float, copy=True))
                cov2.estimate_hyperpar_bounds(np.array(opt.gp.y, dtype=float, copy=True))
                mean2.estimate_hyperpar_bounds(np.array(opt.gp.y, dtype=float, copy=True))
                want = np.array(list(mean2.bounds) + list(cov2.bounds), dtype=float)
                have = np.array(opt.gp.hp_bounds, dtype=float)
            except Exception:  # noqa - another way of organising the fit: not interpretable here
                want = have = None
                stats["warn_uninterpretable_hyperpar_limits"] += 1
            if want is not None:
                stats["hyperpar_limits_checked"] += 1
                if want.shape != have.shape or not np.allclose(want, have, rtol=1e-9, atol=1e-12, equal_nan=True):
                    _viol(V, "data.refit", "%s: the model was fitted within hyper-parameter limits %r, but the limits estimated from "
                          "the current %d data points are %r (limits left over from an earlier data set)"
                          % (when, np.round(have, 6).tolist(), len(my), np.round(want, 6).tolist()))
                    return
            if inc != max(my):
                _viol(V, "incumbent", "%s: the acquisition function's incumbent maximum is %r, the largest observed value is %r" % (when, inc, max(my)))

        if opt is not None:
            inputs_ok("after construction")
            model_ok("after construction")
            if hp_form and not V:
                # the first model is the one built with the caller's hyper-parameters: query it before any refit
                spot_oracles(V, opt, sc, bounds, np.random.Generator(np.random.PCG64([sc["seed"] & 0xFFFF, 77])), stats)
        for op in (sc["ops"] if opt is not None else []):
            if V:
                break
            name, s = op
            stats["op_" + name] += 1
            og = np.random.Generator(np.random.PCG64([s, 5]))
            prop = None
            try:
                if name == "lik_query":
                    # read-only model-selection queries on the live regressor (other hyper-parameter values): the regressor
                    # state - and with it every acquisition value and gradient - must be what it was
                    try:
                        th0 = np.array(opt.gp.hyperpars, dtype=float, copy=True)
                        q0 = np.asarray(lo + (hi - lo) * og.random(d), dtype=float)
                        before_ = [np.asarray(v, dtype=float).copy() for v in opt.gp(q0.reshape(1, d))]
                        for sh in (0.9, -0.6):
                            lib_call("gp.marginal_likelihood", opt.gp.marginal_likelihood, th0 + sh)
                            lib_call("gp.loo_likelihood", opt.gp.loo_likelihood, th0 - sh)
                        after_ = [np.asarray(v, dtype=float) for v in opt.gp(q0.reshape(1, d))]
                    except LibRaised:
                        stats["warn_likelihood_query_failed"] += 1
                        continue
                    except Exception:  # noqa - another regressor interface: not interpretable
                        stats["warn_likelihood_query_failed"] += 1
                        continue
                    stats["fault_likelihood_queries_on_live_regressor"] += 1
                    if any(not np.array_equal(a_, b_) for a_, b_ in zip(after_, before_)) or not np.array_equal(np.asarray(opt.gp.hyperpars, dtype=float), th0):
                        _viol(V, "data.refit", "read-only likelihood queries changed the regressor's predictions / hyper-parameters")
                        break
                    spot_oracles(V, opt, sc, bounds, og, stats)
                    continue
                if name == "retune":
                    # the caller sets other hyper-parameters on the live regressor (public GpRegressor.set_hyperparameters)
                    # between two rounds of queries: the acquisition must describe the regressor as it is now
                    try:
                        th0 = np.array(opt.gp.hyperpars, dtype=float, copy=True)
                        setter = opt.gp.set_hyperparameters
                    except Exception:  # noqa - another regressor interface: not interpretable
                        stats["warn_retune_not_interpretable"] += 1
                        continue
                    spot_oracles(V, opt, sc, bounds, og, stats)  # queries before (anything cached is cached now)
                    if V:
                        break
                    th1 = th0 + np.where(np.arange(th0.size) % 2 == 0, 0.35, -0.45) * (1.0 if s % 2 else -1.0)
                    try:
                        lib_call("gp.set_hyperparameters", setter, th1)
                    except LibRaised:
                        stats["warn_retune_refused"] += 1
                        continue
                    stats["fault_hyperparameters_set_on_live_regressor"] += 1
                    spot_oracles(V, opt, sc, bounds, og, stats)
                    continue
                if name == "anneal":
                    # the public exploration parameter of a live acquisition object is changed between iterations
                    if sc["acq"] == "UCB" and hasattr(opt.acquisition, "kappa"):
                        new_kappa = float(sc["kappa"]) * (0.5 if s % 2 else 3.0)
                        opt.acquisition.kappa = new_kappa
                        sc = dict(sc, kappa=new_kappa)
                        stats["fault_kappa_changed_on_live_acquisition"] += 1
                        spot_oracles(V, opt, sc, bounds, og, stats)
                    continue
                if name == "decoy":
                    # another optimiser (other data, other bounds) is built and updated in between: two
                    # optimisers must not share any state
                    dX = 50.0 + 10.0 * og.random((4, d))
                    dy = np.array([float(np.sum(v)) for v in dX]) + 1000.0
                    dkw = {} if "acquisition" not in kw else {"acquisition": type(opt.acquisition)}
                    decoy = lib_call("GpOptimiser() [second optimiser]", GpOptimiser, dX, dy, bounds=[(50.0, 60.0)] * d,
                                     optimizer="bfgs", **dkw)
                    lib_call("add_evaluation [second optimiser]", decoy.add_evaluation, 50.0 + 10.0 * og.random(d), 5000.0)
                    stats["fault_second_optimiser_interleaved"] += 1
                    inputs_ok("after decoy")
                    if not V:
                        model_ok("after another optimiser was built and updated")
                    if not V:
                        spot_oracles(V, opt, sc, bounds, og, stats)
                    continue
                if name in ("propose", "propose_add"):
                    # "the data the next model is fitted to": every regressor that is consulted while this proposal is
                    # produced - in this process or, unpickled, in a (simulated) pool worker - must hold the current data.
                    # The simulator owns the pool, so worker-side copies are observable here (they are not with real processes).
                    from inference.gp import GpRegressor as _GPR

                    consulted = {}
                    saved_ = {}

                    def _wrap(nm_):
                        orig_ = getattr(_GPR, nm_)

                        def w_(self_, *a_, **k_):
                            if id(self_) not in consulted:
                                try:
                                    consulted[id(self_)] = np.array(self_.y, dtype=float, copy=True).reshape(-1)
                                except Exception:  # noqa
                                    consulted[id(self_)] = None
                            return orig_(self_, *a_, **k_)

                        saved_[nm_] = orig_
                        setattr(_GPR, nm_, w_)

                    for nm_ in ("__call__", "gradient", "spatial_derivatives"):
                        if nm_ in _GPR.__dict__:
                            _wrap(nm_)
                    try:
                        prop = lib_call("propose_evaluation", opt.propose_evaluation)
                    finally:
                        for nm_, orig_ in saved_.items():
                            setattr(_GPR, nm_, orig_)
                    stats["regressors_consulted_for_proposals"] += len(consulted)
                    stale_ = [y_ for y_ in consulted.values() if y_ is not None and not np.array_equal(y_, np.array(my, dtype=float))]
                    if stale_:
                        _viol(V, "data.refit", "a regressor consulted while the proposal was produced (%s, %d process(es)) was fitted to %d "
                              "points; the data set holds %d: added evaluations are not part of the model behind the next proposal"
                              % (sc["optimizer"], int(sc.get("n_processes", 1)), stale_[0].size, len(my)))
                        break
                    p = np.asarray(prop, dtype=float).reshape(-1)
                    stats["proposals"] += 1
                    if p.shape[0] != d or not np.all(np.isfinite(p)) or (p < lo).any() or (p > hi).any():
                        _viol(V, "proposal.bounds", "proposed evaluation %r lies outside the search bounds %r (%s / %s)"
                              % (p.tolist(), bounds, sc["acq"], sc["optimizer"]))
                        break
                    if ((p == lo) | (p == hi)).any():
                        stats["probe_proposal_on_boundary"] += 1
                if name == "propose":
                    continue
                if name == "propose_add":
                    nx = p.copy()
                elif name == "add_random":
                    nx = lo + (hi - lo) * og.random(d)
                elif name == "add_duplicate":
                    nx = np.array(mX[int(og.integers(0, len(mX)))], dtype=float) + 1e-3 * (hi - lo) * og.random(d)
                    nx = np.clip(nx, lo, hi)
                else:
                    nx = lo + (hi - lo) * og.random(d)
                ny = _objective(sc, nx) if name != "add_outlier" else max(my) + 5.0 * (1.0 + abs(max(my)))
                if name == "add_outlier":
                    stats["fault_objective_outlier"] += 1
                if name == "add_duplicate":
                    stats["fault_near_duplicate_point"] += 1
                form = sc["newx_form"]
                if form == "row":
                    ax = nx.reshape(1, d).copy()
                elif form == "flat":
                    ax = nx.copy()
                elif form == "scalar" and d == 1:
                    ax = np.array(float(nx[0]))
                else:
                    ax = [float(v) for v in nx]
                ay = np.array(ny)
                ae = np.array(0.05) if me is not None else None
                s_ax = _snap(ax) if isinstance(ax, np.ndarray) else None
                s_ay, s_ae = _snap(ay), _snap(ae)
                if me is not None:
                    lib_call("add_evaluation", opt.add_evaluation, ax, ay, ae)
                    me.append(0.05)
                else:
                    lib_call("add_evaluation", opt.add_evaluation, ax, ay)
                mX.append(nx.copy())
                my.append(float(ny))
                if (s_ax is not None and _snap(ax) != s_ax) or _snap(ay) != s_ay or _snap(ae) != s_ae:
                    _viol(V, "caller.arrays", "add_evaluation modified an array passed by the caller (new_x shape %r -> %r)"
                          % (s_ax[0] if s_ax else None, ax.shape if isinstance(ax, np.ndarray) else None))
                    break
            except LibRaised as e:
                _viol(V, "op.raised", "%s: %s" % (name, e))
                break
            inputs_ok("after %s" % name)
            if not V:
                model_ok("after %s" % name)
            if not V:
                spot_oracles(V, opt, sc, bounds, og, stats, first=nx if name != "propose" else None)
    for k2, v in c.stats.items():
        stats[k2] += v
    return dict(violations=V, stats=dict(stats), digest=digest(sc), nontrivial=stats["proposals"] > 0 or len(my) > sc["n0"],
                shape="%s/%s/d%d/%s" % (sc["acq"], sc["optimizer"], sc["d"], ",".join(o[0] for o in sc["ops"])), sim_seconds=0.0)


def describe():
    return dict(
        rule=("Hypothesis-generated histories of GpOptimiser (d in {1,2}, 3-6 initial evaluations, in a tenth of them 24-40 and d up to 3; EI / UCB / max-variance; bfgs / differential evolution; with and "
              "without y_err; x passed as 2-D array, 1-D array or list; new_x as row, flat array, 0-d array or list): propose, add the "
              "proposal, add a seeded in-bounds point, a near-duplicate, an outlier objective value. Model = list of rows. After every op: "
              "data set and fitted regressor equal the model, incumbent = max(y), proposals inside the closed box, every array the caller "
              "passed is byte- and shape-identical. Spot oracles at reached states: EI (both branches) vs quadrature, UCB, max-variance, "
              "objective/gradient consistency vs central differences. Non-trivial = at least one proposal or added evaluation."),
        real_vs_stub=dict(real=["GpOptimiser", "acquisition classes", "GpRegressor (refit on every add)", "scipy optimisers"],
                          stub=["legacy numpy.random global stream (seeded per run)", "multiprocessing.Pool -> synchronous pickling stand-in "
                                "(n_processes in {1,2,3}; the pool carries no scheduling clause in C18)"]),
        assumptions=["SCOPED CLAIM: only the history clauses of C18 are decided; the formula clauses are pure functions and are only "
                     "spot-checked at states the histories reach (no coverage 'for all predictive means and variances' is claimed)",
                     "EI reference: adaptive quadrature, relative 1e-6 in log space, |Z| <= 30"],
    )
