"""C15 - advancing a sampler adds exactly the requested number of samples; a pool of
chains ends like the same chains advanced serially; a timed run keeps taking whole steps
until its budget is used up, however slow a step is, then stops.  DESIGN.md 3.7.

Modes: arith (E1 histories of advance/take_step), pool (real ChainPool on the simulated
multiprocessing.Pool under seeded schedules), timed (run_for on a simulated clock with
slow steps, stalls and forward clock jumps), pt_timed (ParallelTempering.run_for inside
the process simulation).
"""
import collections
import pickle

import numpy as np
from hypothesis import strategies as st

from checks import c08
from simkit import ctx as rctx, kernel, lifecycle as lc, oracles, seams
from simkit.driver import digest
from simkit.oracles import LibRaised, lib_call
from simkit.rng import sync_generators

PROPERTY = "C15"
LEVEL = "exploration"


def plan(tier):
    if tier == "thorough":
        return dict(rounds=960, examples_per_round=100, wall_cap=3000, job_timeout=1500)
    return dict(rounds=96, examples_per_round=60, wall_cap=420, job_timeout=600)


@st.composite
def _scenario(draw, tier):
    mode = draw(st.sampled_from(["arith", "arith", "pool", "timed", "timed", "pt_timed", "pt_advance"]))
    if mode == "arith":
        cfg = draw(lc.sampler_config(max_d=3))
        ops = []
        for _ in range(draw(st.integers(1, 5))):
            if draw(st.integers(0, 5)) == 0:
                ops.append(["restart"])
            elif draw(st.integers(0, 9)) == 0:
                # an advance that the user's posterior interrupts by raising; the sampler is kept
                ops.append(["interrupt", draw(st.sampled_from([1, 3, 12, 150])), draw(st.integers(1, 60))])
            elif cfg["kind"] == "ensemble":
                ops.append(["advance", lc.maybe_long(draw, draw(st.one_of(st.sampled_from([0, 1, 2, 3]), st.integers(0, 25))), cfg)])
            elif draw(st.integers(0, 3)) == 0:
                ops.append(["step"])
            else:
                ops.append(["advance", lc.maybe_long(draw, draw(lc.advance_sizes()), cfg)])
        # (a coarse wall clock - readings that do not move for 15.6 ms or 1 s - must not matter to step counting)
        return dict(mode=mode, cfg=cfg, ops=ops, clock_res=draw(st.sampled_from([0.0, 0.0, 0.0156, 1.0])))
    if mode == "pool":
        n = draw(st.integers(1, 5))
        cfgs = [draw(lc.sampler_config(max_d=2)) for _ in range(n)]
        shared = n >= 2 and draw(st.integers(0, 3)) == 0
        if shared:
            # the caller builds all chains of the pool from the same start / width / bounds objects
            cfgs = [cfgs[0]] * n
        return dict(mode=mode, cfgs=cfgs, shared=shared, seed=draw(st.integers(0, 2 ** 32 - 1)),
                    advances=[draw(st.one_of(st.sampled_from([0, 1, 3, 10]), st.integers(0, 40)))
                              for _ in range(draw(st.integers(1, 2)))],
                    retune=draw(st.booleans()),
                    sched=dict(seed=draw(st.integers(0, 2 ** 31 - 1)), stall_p=draw(st.sampled_from([0.0, 0.02, 0.1])),
                               speed_spread=draw(st.sampled_from([1.0, 4.0, 20.0]))),
                    eval_cost=draw(st.sampled_from([1e-5, 1e-3, 0.1])), cores=draw(st.sampled_from([None, 1, 2, 3])))
    if mode == "timed":
        cfg = draw(lc.sampler_config(kinds=lc.CHAIN_KINDS, max_d=2))
        cfg["knobs"]["finite_diff"] = False
        cost = draw(st.sampled_from([2e-4, 1e-3, 0.01, 0.3, 0.9, 1.1, 2.0, 30.0, 600.0]))
        budget_evals = draw(st.sampled_from([0, 1, 3, 30, 300, 2000]))
        unit = draw(st.sampled_from(["minutes", "hours", "days", "mixed"]))
        jumps = []
        if draw(st.booleans()):
            for _ in range(draw(st.integers(1, 2))):
                jumps.append([draw(st.integers(1, 30)), cost * draw(st.sampled_from([1.0, 10.0, 500.0]))])
        stalls = {}
        if draw(st.booleans()):
            stalls[str(draw(st.integers(1, 200)))] = draw(st.sampled_from([5.0, 50.0]))
        return dict(mode=mode, cfg=cfg, cost=cost, budget_s=cost * budget_evals, unit=unit,
                    pre_steps=draw(st.sampled_from([0, 0, 3, 150])), jumps=sorted(jumps), stalls=stalls,
                    repeat=draw(st.sampled_from([1, 1, 2])),
                    # coarse clock: readings move in steps of 15.6 ms / 1 ms (two readings around a fast batch are equal)
                    clock_res=draw(st.sampled_from([0.0, 0.0, 0.0, 0.0156, 0.001])))
    if mode == "pt_advance":
        n = draw(st.sampled_from([1, 2, 3]))
        temps = [1.0]
        for _ in range(n - 1):
            temps.append(round(temps[-1] * draw(st.sampled_from([2.0, 3.0])), 3))
        d = draw(st.integers(1, 2))
        si = draw(st.sampled_from([1, 1, 2, 3, 10]))
        cyc = draw(st.one_of(st.sampled_from([0, 1, 49, 50, 51, 52, 75, 99, 100, 101, 123]), st.integers(0, 130)))
        nsteps = cyc * si + draw(st.integers(0, si - 1))
        sc = dict(chain=draw(st.sampled_from(["gibbs", "gibbs", "metropolis"])), n=n, d=d, target=dict(kind="gauss", d=d), temps=temps,
                  bounded=False, same_start=draw(st.booleans()), seed=draw(st.integers(0, 2 ** 32 - 1)), display=draw(st.booleans()),
                  ops=[["advance", nsteps, si]] * draw(st.sampled_from([1, 1, 2])), snap=False, scheds=[], eval_cost=1e-4, hmc_steps=2,
                  pca_update=7, shutdown=True)
        return dict(mode=mode, pt=sc, sched=dict(seed=draw(st.integers(0, 2 ** 31 - 1)), stall_p=0.0, long_lat_p=0.0, pipe_cap=None,
                                                  speed_spread=draw(st.sampled_from([1.0, 4.0]))))
    # pt_timed
    n = draw(st.sampled_from([1, 2, 3]))
    temps = [1.0]
    for _ in range(n - 1):
        temps.append(round(temps[-1] * draw(st.sampled_from([2.0, 3.0])), 3))
    cost = draw(st.sampled_from([0.002, 0.05, 0.3, 2.0, 20.0, 600.0]))  # (600 s per evaluation: budgets beyond a day)
    if cost == 600.0 and tier != "thorough":
        # a worker waiting for a slower one polls every 0.05 simulated s: day-long budgets with several chains cost
        # millions of yield points each - quick tier: single-chain ladders only
        n, temps = 1, [1.0]
    sc = dict(chain=draw(st.sampled_from(["gibbs", "pca", "hmc"])), n=n, d=draw(st.integers(1, 2)),
              target=dict(kind="gauss", d=None), temps=temps, bounded=False, same_start=draw(st.booleans()),
              seed=draw(st.integers(0, 2 ** 32 - 1)), display=draw(st.booleans()),
              ops=[["run_for", draw(st.sampled_from([0.0, 0.01, 0.1, 0.5, 2.0, 2.5, 5.0])) * cost, draw(st.sampled_from([1, 2, 5]))]],
              snap=True, scheds=[], eval_cost=cost, hmc_steps=2, pca_update=7, shutdown=True)
    sc["target"]["d"] = sc["d"]
    return dict(mode=mode, pt=sc, sched=dict(seed=draw(st.integers(0, 2 ** 31 - 1)), stall_p=draw(st.sampled_from([0.0, 0.02])),
                                              long_lat_p=draw(st.sampled_from([0.0, 0.05])), pipe_cap=None,
                                              speed_spread=draw(st.sampled_from([1.0, 4.0])),
                                              # coarse clock: a whole swap cycle can fit between two equal readings
                                              clock_res=draw(st.sampled_from([0.0, 0.0, 0.0156])),
                                              clock_jumps=[[draw(st.integers(1, 12)), draw(st.sampled_from([0.3, 0.9, 5.0]))]]
                                              if draw(st.integers(0, 2)) == 0 else []))


def scenarios(tier):
    return _scenario(tier)


def _viol(V, inv, detail, **key):
    V.append(dict(invariant=inv, detail=detail, key=key))


def _lengths_consistent(V, h, when):
    S, P = h.rows()
    n = h.length()
    if S.shape[0] != n or P.shape[0] != n:
        _viol(V, "length.consistent", "%s %s: chain_length=%d but %d stored samples and %d stored log-probabilities"
              % (h.kind, when, n, S.shape[0], P.shape[0]))


# ------------------------------------------------------------------ arith
def run_arith(sc, V, stats):
    cfg = sc["cfg"]
    c = rctx.new_run(cfg["seed"])
    seams.seed_global_streams(cfg["seed"])
    clock = seams.FakeClock(resolution=sc.get("clock_res", 0.0))
    c.clock = clock
    with seams.Seams(clock=clock):
        h = lc.Harnessed(cfg, "s0")
        c.eval_cost = c.grad_cost = 1e-6  # a microsecond per evaluation: many steps fit between two clock readings
        per = h.n_walkers if h.is_ensemble else 1
        _lengths_consistent(V, h, "after construction")
        for op in sc["ops"]:
            if V:
                break
            n0 = h.length()
            stats["op_" + op[0]] += 1
            if op[0] == "restart":
                try:
                    old_chain = lc.op_restart(h, "r%d" % stats["fault_crash_restart"])
                except LibRaised:
                    stats["restart_failed_history_ended"] += 1  # save/load failures are C09's business
                    break
                sync_generators(h.chain, old_chain)
                stats["fault_crash_restart"] += 1
                n1 = h.length()
                if n1 != n0:
                    _viol(V, "length.consistent", "%s: chain_length is %d after save/load, it was %d before" % (h.kind, n1, n0))
                _lengths_consistent(V, h, "after save/load")
                continue
            if op[0] == "interrupt":
                # whole steps only: an interrupted advance adds between 0 and m samples (m x walkers: all or none of an
                # iteration), and what is stored stays consistent with the reported length
                try:
                    fired = lc.op_interrupted_advance(h, op[1], op[2])
                except (lc.StepExhausted, rctx.Runaway):
                    break
                stats["probe_operation_interrupted_by_the_posterior"] += int(bool(fired))
                n1 = h.length()
                swallowed = fired == "swallowed"
                if swallowed:
                    fired = False  # advance() returned normally: then it must have added exactly m
                if not (n0 <= n1 <= n0 + op[1] * per) or (n1 - n0) % per or (not fired and n1 != n0 + op[1] * per):
                    _viol(V, "advance.exact", "%s: advance(%d) %s grew chain_length from %d to %d"
                          % (h.kind, op[1], "interrupted by the posterior" if fired else
                             ("returned normally although the posterior raised StopIteration inside it and" if swallowed else "(not interrupted)"),
                             n0, n1))
                _lengths_consistent(V, h, "after an advance interrupted by the posterior")
                continue
            try:
                if op[0] == "step":
                    lc.op_step(h)
                    m = 1
                else:
                    lc.op_advance(h, op[1])
                    m = op[1]
                    if m == 0:
                        stats["probe_advance_zero"] += 1
                    if m % 100 != 0:
                        stats["probe_advance_not_multiple_of_100"] += 1
                    if 0 < m < 100:
                        stats["probe_advance_below_granularity"] += 1
            except lc.StepSizeOverflow as e:
                V.append(dict(invariant="op.runaway", key=dict(cause="step_size_overflow", sampler=h.kind),
                              detail="%s: %r raised the give-up error with the step size at infinity: the chain can never step again "
                                     "(cause: step_size_overflow)" % (h.kind, op)))
                break
            except lc.StepExhausted:
                stats["hmc_step_exhausted"] += 1
                break
            except rctx.Runaway as e:
                rv_ = lc.runaway_violation(h, op, e)
                if rv_ is not None:
                    V.append(rv_)
                else:
                    stats["runaway_with_adaptation_frozen_by_harness"] += 1
                break
            n1 = h.length()
            if n1 - n0 != m * per:
                _viol(V, "advance.exact", "%s: %r grew chain_length by %d, expected %d (from %d)" % (h.kind, op, n1 - n0, m * per, n0))
            _lengths_consistent(V, h, "after %r" % (op,))
    lc.cleanup_scratch()
    return c


# ------------------------------------------------------------------ pool
def run_pool(sc, V, stats):
    c = rctx.new_run(sc["seed"])
    c.cores = sc.get("cores")  # simulated machine size: pools may hold more chains than cores
    if c.cores and len(sc["cfgs"]) > c.cores:
        stats["probe_pool_larger_than_core_count"] += 1
    seams.seed_global_streams(sc["seed"])
    sim = kernel.Sim(sc["sched"]["seed"], dict(stall_p=sc["sched"]["stall_p"], speed_spread=sc["sched"]["speed_spread"]))
    mp = kernel.SimMP(sim)
    try:
        with seams.Seams(sim=sim, mp=mp):
            from inference.mcmc.parallel import ChainPool

            shared_inputs = lc.make_inputs(sc["cfgs"][0]) if sc.get("shared") else None
            if shared_inputs is not None:
                stats["fault_pool_chains_built_from_the_same_arrays"] += 1
            hs = [lc.Harnessed(cfg, "p%d" % k, inputs=shared_inputs, seed_group=(sc["seed"] + k) & 0x7FFFFFFF)
                  for k, cfg in enumerate(sc["cfgs"])]
            chains = [h.chain for h in hs]
            # "the same chains advanced one after another": one copy of the whole list, so that whatever the chains
            # share with each other they still share in the serial reference (pool workers get independent copies)
            serial = pickle.loads(pickle.dumps(chains))
            c.sim = sim
            c.eval_cost = c.grad_cost = sc["eval_cost"]
            c.eval_budget = 400_000
            pool = lib_call("ChainPool()", ChainPool, chains)
            for n in sc["advances"]:
                stats["op_pool_advance"] += 1
                lib_call("ChainPool.advance(%d)" % n, pool.advance, n)
                got = lib_call("ChainPool.chains", lambda: list(pool.chains))
                if len(got) != len(serial):
                    _viol(V, "pool.serial", "pool holds %d chains after advance, %d were given" % (len(got), len(serial)))
                    break
                stopped = False
                for k, ch in enumerate(serial):
                    try:
                        lib_call("advance(%d)" % n, lc._guard_hmc, ch.advance, n)
                    except lc.StepExhausted:
                        stopped = True
                if stopped:
                    stats["hmc_step_exhausted"] += 1
                    break
                for k, (a, b) in enumerate(zip(got, serial)):
                    da, db = digest(oracles.canon(a)), digest(oracles.canon(b))
                    if da != db:
                        ra, rb = oracles.readout_digest(a), oracles.readout_digest(b)
                        _viol(V, "pool.serial", "chain %d (%s) after ChainPool.advance(%d) differs from the same chain advanced "
                              "serially with the same generator state (%s; lengths %s vs %s)"
                              % (k, type(a).__name__, n, "samples differ" if ra != rb else "internal state differs",
                                 getattr(a, "chain_length", "?"), getattr(b, "chain_length", "?")))
                        break
                if V:
                    break
                stats["pool_chains_compared"] += len(serial)
                if sc.get("retune"):
                    # between two pooled advances the caller re-tunes what the public API lets it re-tune on the pool's chains
                    # (HamiltonianChain.estimate_mass); the serial reference gets the same call
                    for a_, b_ in zip(got, serial):
                        if type(a_).__name__ == "HamiltonianChain" and getattr(a_, "chain_length", 0) >= 2 * a_.n_parameters + 8:
                            try:
                                Sa_ = np.asarray(a_.get_sample(burn=1), dtype=float)
                                if not np.all(Sa_.var(axis=0) > 0):
                                    continue
                                lib_call("estimate_mass", a_.estimate_mass)
                                lib_call("estimate_mass", b_.estimate_mass)
                                stats["fault_mass_re_estimated_between_pooled_advances"] += 1
                            except LibRaised:
                                stats["estimate_mass_failed_skipped"] += 1
    except kernel.Deadlock as e:
        dead = [(t.name, type(t.exc).__name__, str(t.exc)[:300]) for t in sim.tasks if t.exc is not None]
        _viol(V, "pool.liveness", "deadlock in ChainPool.advance: %s %r" % (e, dead))
    except rctx.Runaway:
        stats["pool_runaway_history_ended"] += 1
    except LibRaised as e:
        if lc.HMC_STEP_FAIL in str(e):
            stats["hmc_step_exhausted"] += 1  # the documented give-up error, raised inside a pool worker
        else:
            raise
    finally:
        c.sim = None
        sim.shutdown_all()
    stats["fault_stall"] += sim.stats["stalls"]
    stats["fault_pool_worker_starved"] += sim.stats.get("pool_starved", 0)
    stats["probe_pool_worker_served_two_items"] += sim.stats.get("pool_reuse", 0)
    stats["sim_switches"] += sim.stats["switches"]
    return c, sim


# ------------------------------------------------------------------ timed
def _split_budget(seconds, unit):
    m = seconds / 60.0
    if unit == "minutes":
        return dict(minutes=m)
    if unit == "hours":
        return dict(hours=m / 60.0)
    if unit == "days":
        return dict(days=m / 1440.0)
    return dict(minutes=m * 0.5, hours=m * 0.25 / 60.0, days=m * 0.25 / 1440.0)


def run_timed(sc, V, stats):
    cfg = sc["cfg"]
    c = rctx.new_run(cfg["seed"], record=False)
    seams.seed_global_streams(cfg["seed"])
    clock = seams.FakeClock(resolution=sc.get("clock_res", 0.0))
    c.clock = clock
    with seams.Seams(clock=clock):
        h = lc.Harnessed(cfg, "s0")
        c.eval_cost = c.grad_cost = sc["cost"]
        for _ in range(sc["pre_steps"]):
            try:
                lc.op_step(h)
            except (lc.StepExhausted, rctx.Runaway):
                return c, clock
        for rep in range(sc["repeat"]):
            n0 = h.length()
            clock.jump_schedule = [(clock.reads + int(a), float(dt)) for a, dt in sc["jumps"]] if rep == 0 else []
            c.eval_stalls = {c.stats["evals_post"] + int(k): v for k, v in sc["stalls"].items()} if rep == 0 else {}
            kw = _split_budget(sc["budget_s"], sc["unit"])
            budget = ((kw.get("days", 0) * 24.0 + kw.get("hours", 0)) * 60.0 + kw.get("minutes", 0)) * 60.0
            clock.arm(budget)
            stats["op_run_for"] += 1
            c.eval_budget = 100_000 + 20 * int(sc["budget_s"] / sc["cost"])
            try:
                if (cfg["seed"] + rep) % 3 == 0:
                    # the documented signature run_for(minutes, hours, days) called positionally
                    args = [kw.get("minutes", 0), kw.get("hours", 0), kw.get("days", 0)]
                    while len(args) > 1 and args[-1] == 0:
                        args.pop()
                    stats["probe_run_for_called_positionally"] += 1
                    lib_call("run_for%r" % (tuple(args),), lc._guard_hmc, h.chain.run_for, *args)
                else:
                    lib_call("run_for(%r)" % (kw,), lc._guard_hmc, h.chain.run_for, **kw)
            except seams.BusyWait as e:
                _viol(V, "timed.progress", "%s.run_for(%r) with %.4g s per posterior evaluation stopped stepping: %s "
                      "(steps taken so far: %d)" % (h.kind, kw, sc["cost"], e, h.length() - n0))
                return c, clock
            except lc.StepExhausted:
                stats["hmc_step_exhausted"] += 1
                return c, clock
            except rctx.Runaway as e:
                rv_ = lc.runaway_violation(h, "run_for(%r)" % (kw,), e)
                if rv_ is not None:
                    V.append(rv_)
                else:
                    stats["runaway_with_adaptation_frozen_by_harness"] += 1
                return c, clock
            finally:
                clock.disarm()
                c.eval_budget = None
            n1 = h.length()
            if clock.first_read is None:
                if budget > 0:
                    _viol(V, "timed.exhaust", "run_for(%r) returned without ever reading the clock" % (kw,))
            elif clock.shown < clock.first_read + budget - 1e-9:
                _viol(V, "timed.exhaust", "%s.run_for(%r) returned after %.6g simulated s, before its budget of %.6g s was used up"
                      % (h.kind, kw, clock.shown - clock.first_read, budget))
            if budget > 0 and n1 - n0 < 1:
                _viol(V, "timed.progress", "%s.run_for(%r) took no step" % (h.kind, kw))
            allowed = 4 * clock.max_batch_evals + 200 + int(3.0 / sc["cost"])
            if clock.max_batch_evals > 0 and clock.evals_after_deadline > allowed:
                _viol(V, "timed.stop", "%s.run_for(%r): %d posterior evaluations were made after the clock was seen past the "
                      "deadline; the largest batch before the deadline had %d" % (h.kind, kw, clock.evals_after_deadline, clock.max_batch_evals))
            _lengths_consistent(V, h, "after run_for")
            stats["timed_steps"] += n1 - n0
            stats["timed_sim_seconds"] += int(clock.now - (clock.first_read or clock.now))
            if sc["cost"] > 1.0:
                stats["probe_step_slower_than_1s"] += 1
            if budget == 0:
                stats["probe_zero_budget"] += 1
            if V:
                break
    return c, clock


def execute(sc):
    stats = collections.Counter()
    V = []
    mode = sc["mode"]
    stats["mode_" + mode] += 1
    sim_seconds = 0.0
    ev = None
    try:
        if mode == "arith":
            c = run_arith(sc, V, stats)
            nontrivial = any(o[0] == "advance" and o[1] > 0 for o in sc["ops"])
        elif mode == "pool":
            c, sim = run_pool(sc, V, stats)
            sim_seconds = sim.now
            ev = digest(sim.events)
            nontrivial = len(sc["cfgs"]) >= 2 and any(n > 0 for n in sc["advances"])
        elif mode == "timed":
            c, clock = run_timed(sc, V, stats)
            sim_seconds = clock.now
            nontrivial = sc["budget_s"] > 0
        elif mode == "pt_advance":
            r = c08.run_pt(sc["pt"], sc["sched"], canonical=False)
            c = rctx.get()
            for v in r["violations"]:
                if v["invariant"] in ("advance.equal", "liveness.deadlock", "liveness.stepcap", "op.raised", "worker.died", "return.complete"):
                    _viol(V, "pt_advance." + v["invariant"], v["detail"])
            stats["op_pt_advance"] += len(sc["pt"]["ops"])
            if sc["pt"]["ops"][0][1] // sc["pt"]["ops"][0][2] > 50:
                stats["probe_pt_advance_more_than_50_cycles"] += 1
            sim_seconds = r["sim_seconds"]
            ev = r["events_digest"]
            nontrivial = sc["pt"]["ops"][0][1] > 0
        else:
            r = c08.run_pt(sc["pt"], sc["sched"], canonical=False)
            c = rctx.get()
            for v in r["violations"]:
                if v["invariant"] in ("advance.equal", "liveness.deadlock", "liveness.stepcap", "op.raised", "worker.died", "timed.progress"):
                    _viol(V, "pt_timed." + v["invariant"], v["detail"])
            for budget, elapsed in r.get("timed_ops", []):
                stats["op_pt_run_for"] += 1
                if budget >= 86400.0:
                    stats["probe_pt_budget_of_a_day_or_more"] += 1
                # (a program cannot know the time better than its clock shows it: one clock step of slack)
                if elapsed < budget - 1e-6 - float(sc["sched"].get("clock_res") or 0.0):
                    _viol(V, "timed.exhaust", "ParallelTempering.run_for returned after %.4g simulated s, budget %.4g s" % (elapsed, budget))
            sim_seconds = r["sim_seconds"]
            ev = r["events_digest"]
            stats["fault_stall"] += r["stats"].get("fault_stall", 0)
            nontrivial = sc["pt"]["ops"][0][1] > 0
    except LibRaised as e:
        if isinstance(e.exc, rctx.Runaway) or "Runaway" in str(e):
            stats["runaway_history_ended"] += 1
        else:
            _viol(V, "op.raised", str(e))
        c = rctx.get()
        nontrivial = True
    for k2, v in (c.stats.items() if c is not None else []):
        stats[k2] += v
    return dict(violations=V, stats=dict(stats), digest=digest([ev, digest(sc)]), nontrivial=bool(nontrivial),
                shape=mode + "/" + (sc.get("cfg", {}).get("kind", "") or str(len(sc.get("cfgs", [])))),
                sim_seconds=sim_seconds)


def describe():
    return dict(
        rule=("Hypothesis-generated scenarios in four modes: arith (advance(m)/take_step histories, m in 0..260 biased to 0, 1, "
              "99-101, 199-201, now and then 300-5000, all sampler classes, save/load restarts in between), pool (real ChainPool of 1-4 mixed chains on the simulated Pool under seeded "
              "schedules with worker starvation/reuse, compared with serial deep copies), timed (run_for on a simulated clock: "
              "0.2 ms to 10 min per evaluation, budgets 0 to 2000 evaluations, forward clock jumps, slow single evaluations), "
              "pt_timed (ParallelTempering.run_for inside the process simulation, budgets up to 50 h), pt_advance. Non-trivial = advance with m>0 / pool of >=2 "
              "chains advanced / positive time budget; distinct = distinct scenario digest."),
        real_vs_stub=dict(real=["MarkovChain.advance / run_for", "EnsembleSampler.advance", "ChainPool", "ParallelTempering.run_for",
                                "ChainProgressPrinter"],
                          stub=["multiprocessing.Pool (simkit.kernel.SimPool)", "time.time (FakeClock / simulated clock)",
                                "entropy behind default_rng"]),
        assumptions=["progress oracle: more than 1000 consecutive clock readings without a posterior evaluation before the deadline is a stall",
                     "overshoot oracle: evaluations after the deadline was seen <= 4 x largest earlier batch + 200 + 3 simulated seconds worth"],
    )
