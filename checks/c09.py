"""C09 - a saved sampler reloads to an equivalent sampler that can continue.

Crash-restart is a generated operation: the shadow sampler S is saved to a real .npz,
the object is dropped, Class.load() creates its successor, which is handed the generator
states the never-saved primary P holds at that instant.  S must stay bit-identical to P,
read-out for read-out and sample for sample.  DESIGN.md 3.5.
"""
import collections

import numpy as np
from hypothesis import strategies as st

from simkit import ctx as rctx, lifecycle as lc, oracles, seams
from simkit.driver import digest
from simkit.oracles import LibRaised, lib_call
from simkit.rng import sync_generators, find_generators

PROPERTY = "C09"
LEVEL = "exploration"


def plan(tier):
    if tier == "thorough":
        return dict(rounds=960, examples_per_round=100, wall_cap=3000, job_timeout=1500)
    return dict(rounds=96, examples_per_round=50, wall_cap=420, job_timeout=600)


@st.composite
def _scenario(draw, tier):
    cfg = draw(lc.sampler_config(max_d=3))
    kind = cfg["kind"]
    ops = []
    n = draw(st.integers(1, 7))
    for _ in range(n):
        if kind == "ensemble":
            k = draw(st.sampled_from(["advance", "advance", "restart", "restart", "advance", "restart", "interrupt"]))
            if k == "interrupt":
                ops.append(["interrupt", draw(st.sampled_from([1, 2, 4])), draw(st.integers(1, 30))])
                ops.append(["restart"])
            elif k == "advance":
                ops.append(["advance", lc.maybe_long(draw, draw(st.sampled_from([0, 1, 1, 2, 3, 5])), cfg)])
            else:
                ops.append(["restart"])
            continue
        k = draw(st.sampled_from(["step", "advance", "advance", "restart", "restart", "limits", "mass", "interrupt"]))
        if k == "interrupt":
            # the posterior raises in the middle of an advance (both samplers live through the same failure); a save right
            # after it captures a sampler between two attempts of one step
            ops.append(["interrupt", draw(st.sampled_from([1, 3, 12])), draw(st.integers(1, 40))])
            if draw(st.booleans()):
                ops.append(["restart"])
            continue
        if k == "mass" and kind != "hmc":
            k = "advance"
        if k == "step":
            ops.append(["step"])
        elif k == "advance":
            ops.append(["advance", lc.maybe_long(draw, draw(st.one_of(st.sampled_from([0, 1, 2, 3, 4, 5, 7, 9, 10, 11]), st.integers(0, 120))), cfg)])
        elif k == "mass":
            ops.append(["estimate_mass", draw(st.booleans())])
        elif k == "restart":
            ops.append(["restart"])
            if draw(st.integers(0, 4)) == 0:
                ops.append(["restart"])
        elif kind in ("gibbs", "metropolis"):
            i = draw(st.integers(0, cfg["d"] - 1))
            which = draw(st.sampled_from(["bounds", "bounds", "nonneg", "remove", "bad", "both", "both"]))
            if which == "both":
                # both limits on the same parameter (in either order)
                two = [["set_bounds", i, draw(st.sampled_from([0.5, 2.0, 10.0])), draw(st.sampled_from([0.3, 0.5, 0.9]))], ["set_nonneg", i, True]]
                ops.extend(two if draw(st.booleans()) else two[::-1])
                continue
            if which == "bounds":
                ops.append(["set_bounds", i, draw(st.sampled_from([0.5, 2.0, 10.0])), draw(st.sampled_from([0.3, 0.5, 0.9]))])
            elif which == "bad":
                ops.append(["bad_bounds", i, draw(st.sampled_from([0.0, 0.5, 3.0]))])
            elif which == "nonneg":
                ops.append(["set_nonneg", i, True])
            else:
                ops.append(["remove_bounds", i])
    return dict(cfg=cfg, ops=ops, faults=dict(tail_p=draw(st.sampled_from([0.0, 0.0, 0.05])), edge_u_p=0.0),
                plots=draw(st.integers(0, 11)) == 0, final_steps=draw(st.sampled_from([0, 2, 12])))


def scenarios(tier):
    return _scenario(tier)


def _viol(V, inv, detail, **key):
    V.append(dict(invariant=inv, detail=detail, key=key))


def compare(V, P, S, when, stats, deep=False):
    try:
        Sp, Pp = P.rows()
    except LibRaised as e:
        raise RuntimeError("primary read-out failed: %s" % e)
    try:
        Ss, Ps = S.rows()
        nP, nS = P.length(), S.length()
        npP = int(P.chain.n_parameters)
        npS = int(lib_call("n_parameters", lambda: S.chain.n_parameters))
    except LibRaised as e:
        _viol(V, "reload.readout", "%s %s: read-out of the reloaded sampler failed: %s" % (S.kind, when, e))
        return
    if nP != nS or npP != npS:
        _viol(V, "reload.equal", "%s %s: chain_length/n_parameters %d/%d for the reloaded sampler, %d/%d for the original"
              % (S.kind, when, nS, npS, nP, npP))
        return
    if Ss.shape != Sp.shape or not np.array_equal(Ss, Sp):
        k = None
        if Ss.shape == Sp.shape:
            bad = np.nonzero((Ss != Sp).any(axis=1))[0]
            k = int(bad[0]) if bad.size else None
        _viol(V, "reload.equal", "%s %s: samples of the restarted sampler differ from the never-saved one (shapes %r vs %r, "
              "first differing row %r of %d)" % (S.kind, when, Ss.shape, Sp.shape, k, Sp.shape[0]))
        return
    if Ps.shape != Pp.shape or not np.array_equal(Ps, Pp):
        _viol(V, "reload.equal", "%s %s: log-probabilities of the restarted sampler differ from the never-saved one" % (S.kind, when))
        return
    stats["compared_rows"] += Sp.shape[0]
    bP, bS = getattr(P.chain, "bounds", None), getattr(S.chain, "bounds", None)
    if (bP is None) != (bS is None):
        _viol(V, "reload.equal", "%s %s: bounds %s on the reloaded sampler, %s on the original"
              % (S.kind, when, "missing" if bS is None else "present", "missing" if bP is None else "present"))
    elif bP is not None:
        if not (np.array_equal(np.asarray(bP.lower), np.asarray(bS.lower)) and np.array_equal(np.asarray(bP.upper), np.asarray(bS.upper))):
            _viol(V, "reload.equal", "%s %s: bounds differ after reload" % (S.kind, when))
    if Sp.shape[0] == 0:
        return
    # seeded read-outs at some burn/thin
    n = Sp.shape[0]
    for burn, thin in ((1, 1), (n // 2, 2), (max(0, n - 1), 1)):
        try:
            a = np.asarray(lib_call("get_sample", S.chain.get_sample, burn=burn, thin=thin))
            b = np.asarray(P.chain.get_sample(burn=burn, thin=thin))
            pa = np.asarray(lib_call("get_parameter", S.chain.get_parameter, 0, burn=burn, thin=thin))
            pb = np.asarray(P.chain.get_parameter(0, burn=burn, thin=thin))
            qa = np.asarray(lib_call("get_probabilities", S.chain.get_probabilities, burn=burn, thin=thin))
            qb = np.asarray(P.chain.get_probabilities(burn=burn, thin=thin))
        except LibRaised as e:
            _viol(V, "reload.readout", "%s %s: %s" % (S.kind, when, e))
            return
        if a.shape != b.shape or not np.array_equal(a, b) or pa.shape != pb.shape or not np.array_equal(pa, pb) \
                or qa.shape != qb.shape or not np.array_equal(qa, qb):
            _viol(V, "reload.equal", "%s %s: read-outs at burn=%d thin=%d differ between reloaded and original" % (S.kind, when, burn, thin))
            return
    try:
        mS = np.asarray(lib_call("mode()", S.chain.mode)).reshape(-1)
        mP = np.asarray(P.chain.mode()).reshape(-1)
        if not np.array_equal(mS, mP):
            _viol(V, "reload.equal", "%s %s: mode() differs between reloaded and original" % (S.kind, when))
    except LibRaised as e:
        _viol(V, "reload.readout", "%s %s: %s" % (S.kind, when, e))
    # the state the samplers report and save (samples, histories of adapted widths / step sizes / directions, counters,
    # per-walker diagnostics), attribute by attribute: equal right after the reload and after every continued operation
    dif = oracles.state_diff(oracles.numeric_state(S.chain, only=oracles.REPORTED_STATE),
                             oracles.numeric_state(P.chain, only=oracles.REPORTED_STATE))
    stats["states_compared"] += 1
    if dif:
        _viol(V, "reload.tuning", "%s %s: the state of the reloaded sampler differs from the never-saved one at %d attribute(s): %s"
              % (S.kind, when, len(dif), "; ".join(dif[:3])))
        return
    if deep and n >= 8 and hasattr(P.chain, "estimate_burn_in"):
        try:
            eP = P.chain.estimate_burn_in()
        except Exception:  # noqa - the original itself cannot do it: nothing to compare
            eP = None
        if eP is not None:
            try:
                eS = lib_call("estimate_burn_in", S.chain.estimate_burn_in)
                if eS != eP:
                    _viol(V, "reload.tuning", "%s %s: burn-in estimate (a function of the recorded tuning history) is %r after "
                          "reload, %r for the original" % (S.kind, when, eS, eP))
            except LibRaised as e:
                _viol(V, "reload.readout", "%s %s: %s" % (S.kind, when, e))


def plots(V, P, S, stats):
    import matplotlib.pyplot as plt

    n = P.length()
    calls = []
    if S.kind != "ensemble":
        calls.append(("plot_diagnostics", lambda ch: ch.plot_diagnostics(show=False)))
    calls.append(("trace_plot", lambda ch: ch.trace_plot(show=False)))
    calls.append(("matrix_plot", lambda ch: ch.matrix_plot(show=False)))
    calls.append(("get_interval", lambda ch: ch.get_interval(0.9, burn=0)))
    calls.append(("get_marginal", lambda ch: ch.get_marginal(0, burn=0)))
    for name, f in calls:
        try:
            f(P.chain)
            okP = True
        except Exception:  # noqa
            okP = False
        finally:
            plt.close("all")
        if not okP:
            continue
        try:
            lib_call(name, f, S.chain)
            stats["plots_compared"] += 1
        except LibRaised as e:
            _viol(V, "reload.plotting", "%s: %s works on the original but on the reloaded sampler %s" % (S.kind, name, e))
        finally:
            plt.close("all")


def execute(sc):
    stats = collections.Counter()
    V = []
    cfg = sc["cfg"]
    c = rctx.new_run(cfg["seed"], faults=sc["faults"])
    seams.seed_global_streams(cfg["seed"])
    restarts = 0
    ended = False
    interrupted = False
    steps_before_first_restart = None
    try:
        with seams.Seams(clock=seams.FakeClock()):
            inputs = lc.make_inputs(cfg)
            P = lc.Harnessed(cfg, "P", inputs=inputs, private=True)
            S = lc.Harnessed(cfg, "S", inputs=inputs, private=True)
            ops = list(sc["ops"]) + ([["advance", sc["final_steps"]]] if sc["final_steps"] else [])
            if cfg["kind"] != "ensemble" and sc["final_steps"]:
                ops[-1] = ["advance", sc["final_steps"]]
            for op in ops:
                if V:
                    break
                name = op[0]
                stats["op_" + name] += 1
                if name == "restart":
                    if steps_before_first_restart is None:
                        steps_before_first_restart = P.length()
                    try:
                        old = lc.op_restart(S, "r%d" % restarts)
                    except LibRaised as e:
                        _viol(V, "reload.saveload", "%s with %d stored samples%s: %s"
                              % (S.kind, P.length(), " (after an advance that the posterior interrupted)" if interrupted else "", e),
                              sampler=S.kind, after_interrupt=bool(interrupted))
                        break
                    restarts += 1
                    stats["fault_crash_restart"] += 1
                    nsync, only_new, only_old = sync_generators(S.chain, P.chain)
                    if only_old:
                        stats["warn_generators_missing_after_reload"] += 1
                    if P.length() <= 1 or (S.is_ensemble and P.length() == 0):
                        stats["probe_restart_before_first_step"] += 1
                    compare(V, P, S, "right after reload #%d" % restarts, stats, deep=True)
                    continue
                try:
                    # primary first: if the never-saved sampler cannot do it, the history ends
                    try:
                        before_ = c.stats["probe_operation_interrupted_by_the_posterior"]
                        apply_one(P, op)
                        interrupted = interrupted or c.stats["probe_operation_interrupted_by_the_posterior"] > before_
                    except (LibRaised, lc.StepExhausted, rctx.Runaway):
                        stats["primary_op_failed_history_ended"] += 1
                        ended = True  # (the primary may have stopped part-way: the two are no longer comparable)
                        break
                    try:
                        apply_one(S, op)
                    except lc.StepExhausted:
                        _viol(V, "reload.continue", "%s: %r exhausted its attempts on the restarted sampler but not on the original" % (S.kind, op))
                        break
                    except rctx.Runaway as e:
                        _viol(V, "reload.continue", "%s: %r does not terminate on the restarted sampler (%s)" % (S.kind, op, e))
                        break
                    except LibRaised as e:
                        _viol(V, "reload.continue", "%s after %d restart(s): %r works on the never-saved sampler but on the "
                              "reloaded one %s" % (S.kind, restarts, op, e))
                        break
                finally:
                    pass
                compare(V, P, S, "after %r (%d restarts so far)" % (op, restarts), stats)
            if not V and not ended and sc["plots"] and restarts and P.length() >= 12:
                plots(V, P, S, stats)
    finally:
        lc.cleanup_scratch()
    for k2, v in c.stats.items():
        stats[k2] += v
    continued = restarts > 0 and any(o[0] in ("step", "advance") for o in sc["ops"][_first_restart(sc["ops"]):]) or \
        (restarts > 0 and sc["final_steps"] > 0)
    return dict(violations=V, stats=dict(stats), digest=digest(sc), nontrivial=bool(continued),
                shape="%s/%s" % (cfg["kind"], ",".join(o[0] for o in sc["ops"])), sim_seconds=0.0)


def _first_restart(ops):
    for i, o in enumerate(ops):
        if o[0] == "restart":
            return i
    return len(ops)


def apply_one(h, op):
    name = op[0]
    if name == "step":
        lc.op_step(h)
    elif name == "advance":
        lc.op_advance(h, op[1])
    elif name == "interrupt":
        if lc.op_interrupted_advance(h, op[1], op[2]):
            rctx.get().stats["probe_operation_interrupted_by_the_posterior"] += 1
    elif name == "set_bounds":
        i, w, frac = op[1], op[2], op[3]
        cur = float(np.asarray(h.chain.get_parameter(i, burn=0))[-1])
        lo = cur - w * frac
        lib_call("set_boundaries", h.chain.set_boundaries, i, (lo, lo + w))
    elif name == "set_nonneg":
        cur = float(np.asarray(h.chain.get_parameter(op[1], burn=0))[-1])
        if cur >= 0:
            lib_call("set_non_negative", h.chain.set_non_negative, op[1], True)
    elif name == "remove_bounds":
        lib_call("set_boundaries(remove)", h.chain.set_boundaries, op[1], (0.0, 1.0), remove=True)
    elif name == "estimate_mass":
        # public re-tuning of the HMC mass from the samples so far (needs enough distinct samples)
        S = np.asarray(h.chain.get_sample(burn=1))
        if S.shape[0] >= 2 * h.d + 4 and np.all(S.var(axis=0) > 0) and (h.d == 1 or op[1] or
                                                                    np.linalg.cond(np.cov(S.T)) < 1e8):
            lib_call("estimate_mass", h.chain.estimate_mass, burn=1, thin=1, diagonal=bool(op[1]))
    elif name == "bad_bounds":
        cur = float(np.asarray(h.chain.get_parameter(op[1], burn=0))[-1])
        lib_call("set_boundaries(rejected)", h.chain.set_boundaries, op[1], (cur + op[2], cur - op[2]))


def describe():
    return dict(
        rule=("Hypothesis-generated histories on a never-saved primary and a shadow that is crash-restarted (save -> object "
              "dropped -> load -> generator states of the primary handed over) at generated points: before any step, around the "
              "first width adaptation / direction update (check intervals randomised 2..100), after many steps, twice in a row; "
              "all five sampler classes, bounds, Gibbs limits, temperatures, scalar/vector/matrix mass, finite-difference HMC, "
              "tail-draw faults, 5-9 parameters in 1/12 and one run of 300-5000 steps in 1/16 of the advance ops. Non-trivial = at least one restart followed by at least one step; distinct = scenario digest."),
        real_vs_stub=dict(real=["save()/load() of every sampler class on real .npz files", "take_step/advance after reload",
                                "read-out and plotting calls (Agg backend)"],
                          stub=["entropy behind default_rng (state copied from the primary at the restart instant)", "time.time"]),
        assumptions=["generator objects are matched between original and reloaded sampler by attribute path",
                     "torn / partial .npz writes are not injected (C09 is about restart points, not write atomicity)"],
    )
