"""C03 - stored log-probabilities always belong to the stored samples; mode() is a stored
row with maximal stored value; samplers built from the same input arrays evolve
independently and leave those arrays unchanged.  DESIGN.md 3.2.

Engine: E1 lifecycle histories; groups of samplers built from the same input objects
run as kernel tasks pre-empted at every posterior evaluation (seeded schedule), then each
sampler is re-run alone on private copies with the same generator seeds.
"""
import collections
import hashlib

import numpy as np
from hypothesis import strategies as st

from simkit import ctx as rctx, kernel, lifecycle as lc, oracles, seams
from simkit.driver import digest
from simkit.oracles import LibRaised
from simkit.rng import sync_generators

PROPERTY = "C03"
LEVEL = "exploration"


def plan(tier):
    if tier == "thorough":
        return dict(rounds=960, examples_per_round=100, wall_cap=3000, job_timeout=1500)
    return dict(rounds=96, examples_per_round=60, wall_cap=420, job_timeout=600)


@st.composite
def _ops(draw, kind, d, cfg, allow_long=True):
    ops = []
    longs = 0 if allow_long else 1  # at most one very long run per scenario (they run interleaved, then again alone)
    for _ in range(draw(st.integers(1, 7))):
        if kind == "ensemble":
            r_ = draw(st.integers(0, 7))
            if r_ == 0:
                ops.append(["restart"])
            elif r_ == 1:
                ops.append(["inspect", draw(st.integers(0, 2)) == 0])  # (every third one with the plotting calls)
            elif r_ == 2 and draw(st.booleans()):
                ops.append(["interrupt", draw(st.sampled_from([1, 2, 5])), draw(st.integers(1, 30))])
            else:
                m_ = draw(st.sampled_from([0, 1, 1, 2, 3, 7]))
                m2_ = m_ if longs else lc.maybe_long(draw, m_, cfg, one_in=24)
                longs += m2_ != m_
                ops.append(["advance", m2_])
            continue
        k = draw(st.sampled_from(["step", "step", "advance", "exchange", "exchange", "restart", "inspect", "scribble", "interrupt"]
                                 + (["limits"] if kind in ("gibbs", "metropolis") else [])))
        if k == "limits":
            # limits set / changed / cleared on a chain that has already moved (also to an interval away from where it is)
            ops.append(["limits", draw(st.integers(0, 8)), draw(st.sampled_from(["around", "away", "away", "remove", "nonneg", "nonneg_off"])),
                        draw(st.integers(0, 2 ** 16))])
            continue
        if k == "interrupt":
            # the user's posterior raises in the middle of an advance; the caller catches it and keeps using the sampler
            ops.append(["interrupt", draw(st.sampled_from([1, 3, 12])), draw(st.integers(1, 40))])
            continue
        if k == "scribble":
            ops.append(["scribble"])
            continue
        if k == "inspect":
            ops.append(["inspect", draw(st.integers(0, 7)) == 0])
            continue
        if k == "step":
            ops.append(["step"])
        elif k == "advance":
            m_ = draw(st.sampled_from([0, 1, 2, 5, 12, 30]))
            m2_ = m_ if longs else lc.maybe_long(draw, m_, cfg, one_in=24)
            longs += m2_ != m_
            ops.append(["advance", m2_])
        elif k == "restart":
            ops.append(["restart"])
        else:
            ops.append(["exchange", draw(st.integers(0, 2 ** 16))])
    if kind != "ensemble" and cfg.get("bounds") is not None and draw(st.integers(0, 3)) == 0:
        # a ladder of mixed limits: the partner of the last exchange has no bounds and hands over a point outside this
        # chain's box (the history ends there: a bounded sampler outside its box is not a state to step from)
        ops.append(["exchange_stray", draw(st.integers(0, 2 ** 16))])
    return ops


@st.composite
def _pt_scenario(draw):
    """Chains run under the real ParallelTempering (process simulation of C08): exchanges install
    foreign points; every stored log-probability must still belong to its sample."""
    n = draw(st.sampled_from([2, 3, 3, 4, 5]))
    d = draw(st.integers(1, 2))
    temps = [draw(st.sampled_from([1.0, 1.0, 2.0]))]
    for _ in range(n - 1):
        temps.append(round(temps[-1] * draw(st.sampled_from([1.3, 2.0, 3.0])), 4))
    ops = []
    for _ in range(draw(st.integers(1, 4))):
        k = draw(st.sampled_from(["swap", "swap", "take_steps", "advance"]))
        if k == "swap":
            ops.append(["swap"])
        elif k == "take_steps":
            ops.append(["take_steps", draw(st.integers(0, 6))])
        else:
            ops.append(["advance", draw(st.integers(0, 30)), draw(st.sampled_from([1, 2, 5]))])
    return dict(pt=dict(chain=draw(st.sampled_from(["gibbs", "metropolis", "pca", "hmc"])), n=n, d=d, target=dict(kind="gauss", d=d),
                        temps=temps, bounded=False, same_start=draw(st.booleans()), seed=draw(st.integers(0, 2 ** 32 - 1)),
                        display=draw(st.booleans()), ops=ops, snap=True, scheds=[], eval_cost=1e-4, hmc_steps=3, pca_update=7,
                        shutdown=True),
                sched=dict(seed=draw(st.integers(0, 2 ** 31 - 1)), stall_p=0.0, long_lat_p=0.0, pipe_cap=None, speed_spread=4.0))


@st.composite
def _scenario(draw, tier):
    if draw(st.integers(0, 9)) == 0:
        return draw(_pt_scenario())
    cfg = draw(lc.sampler_config(max_d=3))
    g = draw(st.sampled_from([1, 2, 2, 3, 4]))
    return dict(
        cfg=cfg, group=g,
        ops=[draw(_ops(cfg["kind"], cfg["d"], cfg, allow_long=(k_ == 0))) for k_ in range(g)],
        faults=dict(tail_p=draw(st.sampled_from([0.0, 0.0, 0.05])), edge_u_p=draw(st.sampled_from([0.0, 0.0, 0.05]))),
        sched_seed=draw(st.integers(0, 2 ** 31 - 1)),
        stall_p=draw(st.sampled_from([0.0, 0.05])),
    )


def scenarios(tier):
    return _scenario(tier)


def _viol(V, inv, detail, **key):
    V.append(dict(invariant=inv, detail=detail, key=key))


def check_mode(V, h, S, P):
    if S.shape[0] == 0 or S.shape[0] != P.shape[0]:
        return
    try:
        m = np.asarray(oracles.lib_call("mode()", h.chain.mode), dtype=float).reshape(-1)
    except LibRaised as e:
        _viol(V, "mode.raised", "%s: %s" % (h.label, e))
        return
    if m.shape[0] != S.shape[1]:
        _viol(V, "mode.is_row", "%s: mode() has %d entries for %d parameters" % (h.label, m.shape[0], S.shape[1]))
        return
    hit = np.nonzero((S == m[None, :]).all(axis=1))[0]
    if hit.size == 0:
        _viol(V, "mode.is_row", "%s: mode() %r is not a recorded sample" % (h.label, m.tolist()))
        return
    best = np.max(P)
    if not any(P[k] == best for k in hit):
        _viol(V, "mode.is_max", "%s: mode() is row(s) %r with stored log-prob %r but the maximum stored log-prob is %r (row %d)"
              % (h.label, hit[:3].tolist(), float(P[hit[0]]), float(best), int(np.argmax(P))))


def run_ops(h, ops, V, stats, inputs, snap, xrng, scribble_ok=False):
    """Apply one sampler's op list, checking the invariants after every op."""
    prev_len = 0
    for op in ops:
        if V:
            return
        name = op[0]
        stats["op_" + name] += 1
        try:
            if name == "step":
                lc.op_step(h)
            elif name == "advance":
                lc.op_advance(h, op[1])
            elif name == "interrupt":
                if lc.op_interrupted_advance(h, op[1], op[2]):
                    stats["probe_operation_interrupted_by_the_posterior"] += 1
            elif name == "exchange":
                g = np.random.Generator(np.random.PCG64([op[1], 17]))
                pos = h.foreign_point(h.target.draw(g, h.T if h.cfg["target"]["kind"] != "banana" else 1.0))
                L = h.target.logpdf(pos)
                lc.op_exchange(h, pos, L)
                S, P = h.rows()
                if S.shape[0] and not np.array_equal(S[-1], pos):
                    _viol(V, "exchange.installed", "%s: after an exchange installing %r the last recorded sample is %r"
                          % (h.label, pos.tolist(), S[-1].tolist()))
                stats["fault_exchange_installs_foreign_point"] += 1
            elif name == "exchange_stray":
                g = np.random.Generator(np.random.PCG64([op[1], 19]))
                lo_, hi_ = np.asarray(h.cfg["bounds"][0], dtype=float), np.asarray(h.cfg["bounds"][1], dtype=float)
                pos = lo_ + (hi_ - lo_) * g.random(h.d)
                k_ = int(g.integers(0, h.d))
                pos[k_] = hi_[k_] + (hi_[k_] - lo_[k_]) * float(g.uniform(0.05, 0.8)) if g.random() < 0.5 else \
                    lo_[k_] - (hi_[k_] - lo_[k_]) * float(g.uniform(0.05, 0.8))
                L = h.target.logpdf(pos)
                if np.isnan(L):
                    return  # (a target that is undefined outside the box cannot have been the partner's density)
                lc.op_exchange(h, pos, L)
                stats["fault_exchange_installs_point_outside_the_bounds"] += 1
                S, P = h.rows()
                bad = oracles.check_probs_belong(h.chain, h.target, h.T, start=max(0, S.shape[0] - 1), label=h.label + " ")
                for b in bad[:1]:
                    _viol(V, "probs.belong", "after an exchange that handed over the point %r (outside the chain's own bounds) with "
                          "log-density %r: %s" % (pos.tolist(), L, b))
                return
            elif name == "limits":
                if lc.op_limits(h, op[1], op[2], op[3]):
                    stats["op_limits_changed_on_live_chain"] += 1
            elif name == "scribble":
                # the caller re-uses its start array for something else: recorded history must not follow it
                # (only done by a sampler that owns a private copy of the inputs, i.e. not inside a shared group)
                if scribble_ok and isinstance(h.inputs["start"], np.ndarray) and h.inputs["start"].flags.writeable:
                    st_arr = h.inputs["start"]
                    st_arr += (1000 + np.arange(st_arr.size)).reshape(st_arr.shape).astype(st_arr.dtype)
                    snap.update(lc.snapshot_inputs(inputs))
                    stats["fault_caller_overwrites_start_array"] += 1
            elif name == "inspect":
                inspect_is_pure(V, h, stats, plots=bool(op[1]))
                if V:
                    return
            elif name == "restart":
                try:
                    old_chain = lc.op_restart(h, "r%d" % stats["fault_crash_restart"])
                except LibRaised:
                    # whether a sampler can be saved and loaded at this point is C09's statement, not C03's
                    stats["restart_failed_history_ended"] += 1
                    return
                sync_generators(h.chain, old_chain)
                stats["fault_crash_restart"] += 1
        except lc.StepExhausted:
            stats["hmc_step_exhausted"] += 1
            return
        except rctx.Runaway:
            stats["op_runaway_history_ended"] += 1  # liveness belongs to C15
            return
        except LibRaised as e:
            _viol(V, "op.raised", "%s: %s" % (h.label, e))
            return
        try:
            S, P = h.rows()
        except LibRaised as e:
            _viol(V, "op.raised", "%s: %s" % (h.label, e))
            return
        bad = oracles.check_probs_belong(h.chain, h.target, h.T, start=0 if name == "scribble" else max(0, prev_len - 1),
                                         label=h.label + " ") if S.shape[0] else []
        for b in bad[:1]:
            _viol(V, "probs.belong", "after %r: %s" % (op, b))
        stats["rows_checked"] += max(0, S.shape[0] - max(0, prev_len - 1))
        if S.shape[0] != h.length():
            _viol(V, "probs.belong", "%s: chain_length %d but %d recorded samples after %r" % (h.label, h.length(), S.shape[0], op))
        check_mode(V, h, S, P)
        ch = lc.inputs_changed(inputs, snap)
        if ch:
            _viol(V, "inputs.unchanged", "%s: caller's input array(s) %r were modified (after %r)" % (h.label, ch, op))
        prev_len = S.shape[0]


def inspect_is_pure(V, h, stats, plots=False):
    """Read-only / diagnostic calls must leave the recorded chain and the random streams untouched."""
    from simkit.rng import find_generators

    def fingerprint():
        S, P = h.rows()
        gens = {k: str(g.bit_generator.state["state"]) for k, g in find_generators(h.chain).items()}
        return (S.shape, hashlib.sha256(S.tobytes()).hexdigest(), hashlib.sha256(P.tobytes()).hexdigest(), h.length(), gens)

    before = fingerprint()
    n = before[3]
    ch = h.chain
    calls = [("mode", lambda: ch.mode()), ("get_interval", lambda: ch.get_interval(0.9, burn=0)),
             ("get_interval(samples)", lambda: ch.get_interval(0.5, burn=0, samples=3)),
             ("get_interval(thin, samples)", lambda: ch.get_interval(0.9, 1, 2, 3)),
             ("get_parameter", lambda: ch.get_parameter(0, burn=0, thin=2)), ("get_sample", lambda: ch.get_sample(burn=1, thin=1)),
             ("get_probabilities", lambda: ch.get_probabilities(burn=0, thin=3))]
    if n >= 5:
        calls.append(("get_marginal", lambda: ch.get_marginal(0, burn=0)))
    if hasattr(ch, "estimate_burn_in") and n >= 8:
        calls.append(("estimate_burn_in", lambda: ch.estimate_burn_in()))
    import matplotlib.pyplot as plt

    if h.kind == "ensemble" and n >= 1:
        calls.append(("plot_diagnostics", lambda: ch.plot_diagnostics()))  # (no show argument; Agg backend)
    if plots and n >= 12:
        if h.kind != "ensemble":
            calls.append(("plot_diagnostics", lambda: ch.plot_diagnostics(show=False)))
        calls.append(("trace_plot", lambda: ch.trace_plot(show=False)))
        calls.append(("matrix_plot", lambda: ch.matrix_plot(show=False)))
    if n == 0:
        return
    done = []
    for name, f in calls:
        try:
            out_ = f()
            done.append(name)
        except Exception:  # noqa - whether a diagnostic works on this chain is not C03's business
            continue
        finally:
            if name in ("plot_diagnostics", "trace_plot", "matrix_plot"):
                plt.close("all")
        if name.startswith("get_interval"):
            # samples handed out together with log-probabilities: each value must be the log-density of its own row
            try:
                R_, Q_ = np.asarray(out_[0], dtype=float), np.asarray(out_[1], dtype=float).reshape(-1)
                ok_ = R_.ndim == 2 and R_.shape[0] == Q_.shape[0]
            except Exception:  # noqa
                ok_ = False
            if ok_:
                stats["interval_pairs_checked"] += int(Q_.shape[0])
                for k_ in range(Q_.shape[0]):
                    want_ = h.target.logpdf(R_[k_]) / h.T
                    if not oracles.close(Q_[k_], want_, rtol=1e-9, atol=1e-9):
                        _viol(V, "probs.belong", "%s: %s returned the sample %r together with the log-probability %r, but posterior(sample)/T "
                              "= %r" % (h.label, name, R_[k_].tolist(), float(Q_[k_]), want_))
                        return
    stats["inspect_calls"] += len(done)
    after = fingerprint()
    if after != before:
        what = [w for w, a, b in zip(("sample shape", "samples", "log-probabilities", "chain_length", "generator states"), after, before) if a != b]
        _viol(V, "inspect.pure", "%s: read-only calls %r changed the recorded chain / random streams (%s)" % (h.label, done, ", ".join(what)))


def pair_exchange(V, a, b, stats):
    """In-process exchange between two samplers following the worker protocol: gather
    (get_last(), probs[-1]) from both WITHOUT copying, then update both through the real
    worker loop.  Afterwards each holds the other's previous point with its own value."""
    try:
        Sa, _ = a.rows()
        Sb, _ = b.rows()
        if Sa.shape[0] == 0 or Sb.shape[0] == 0:
            return
        xa, xb = Sa[-1].copy(), Sb[-1].copy()
        pa = oracles.lib_call("get_last", a.chain.get_last)
        pb = oracles.lib_call("get_last", b.chain.get_last)
        La, Lb = a.target.logpdf(xa), b.target.logpdf(xb)
        lc.op_exchange(a, pb, Lb, copy=False)
        lc.op_exchange(b, pa, La, copy=False)
    except LibRaised as e:
        _viol(V, "op.raised", "in-process exchange: %s" % e)
        return
    stats["probe_in_process_pair_exchange"] += 1
    for h, want, other in ((a, xb, "s1"), (b, xa, "s0")):
        S, P = h.rows()
        if not np.array_equal(S[-1], want):
            _viol(V, "exchange.installed", "%s: after an in-process exchange with %s (positions gathered with get_last() from both, "
                  "then installed) the last recorded sample is %r, the other sampler's previous point was %r"
                  % (h.label, other, S[-1].tolist(), want.tolist()))
            return
        bad = oracles.check_probs_belong(h.chain, h.target, h.T, start=max(0, S.shape[0] - 2), label=h.label + " ")
        for m in bad[:1]:
            _viol(V, "probs.belong", "after an in-process exchange: %s" % m)
            return


def traj_digest(h):
    S, P = h.rows()
    return digest([list(S.shape), hashlib.sha256(np.ascontiguousarray(S).tobytes()).hexdigest(),
                   hashlib.sha256(np.ascontiguousarray(P).tobytes()).hexdigest()])


def execute_pt(sc):
    from checks import c08

    r = c08.run_pt(sc["pt"], sc["sched"], canonical=False)
    V = []
    for v in r["violations"]:
        if v["invariant"] in ("chain.probs_belong", "swap.retemper", "swap.handover", "return.complete", "op.raised", "worker.died"):
            _viol(V, "pt." + v["invariant"], v["detail"])
    stats = collections.Counter({"mode_pt": 1})
    for k in ("rows_checked", "probe_swap_exchanged", "probe_exchanges_inside_advance"):
        stats[k] += r["stats"].get(k, 0)
    stats["fault_exchange_installs_foreign_point"] += r["stats"].get("probe_swap_exchanged", 0) + r["stats"].get("probe_exchanges_inside_advance", 0)
    return dict(violations=V, stats=dict(stats), digest=digest([r["events_digest"], digest(sc)]),
                nontrivial=stats["fault_exchange_installs_foreign_point"] > 0,
                shape="pt/%s/%d" % (sc["pt"]["chain"], sc["pt"]["n"]), sim_seconds=r["sim_seconds"])


def execute(sc):
    if "pt" in sc:
        return execute_pt(sc)
    stats = collections.Counter()
    V = []
    cfg = sc["cfg"]
    G = sc["group"]
    c = rctx.new_run(cfg["seed"], faults=sc["faults"])
    seams.seed_global_streams(cfg["seed"])
    sim = kernel.Sim(sc["sched_seed"], dict(stall_p=sc["stall_p"], stall=(1e-4, 1e-2)))
    sim.keep_events = True
    group_digests = [None] * G
    events_digest = None
    try:
        with seams.Seams(clock=seams.FakeClock()):
            inputs = lc.make_inputs(cfg)
            snap = lc.snapshot_inputs(inputs)
            hs = []
            for k in range(G):
                try:
                    hs.append(lc.Harnessed(cfg, "s%d" % k, inputs=inputs, seed_group=(cfg["seed"] + k) & 0x7FFFFFFF))
                except LibRaised as e:
                    _viol(V, "op.raised", "s%d: %s" % (k, e))
                    break
            ch = lc.inputs_changed(inputs, snap)
            if ch and not V:
                _viol(V, "inputs.unchanged", "constructing the sampler(s) modified the caller's input array(s) %r" % ch)
            if not V:
                c.sim = sim
                c.eval_cost = c.grad_cost = 1e-3
                tasks = []
                Vs = [[] for _ in range(G)]
                for k, h in enumerate(hs):
                    if G == 1:
                        run_ops(h, sc["ops"][k], Vs[k], stats, inputs, snap, None, scribble_ok=True)
                    else:
                        t = sim.spawn("s%d" % k, run_ops, (h, sc["ops"][k], Vs[k], stats, inputs, snap, None))
                        t.wake = 0.0
                        sim.speed["s%d" % k] = 1.0 + 0.37 * k
                        tasks.append(t)
                while any(not t.done for t in tasks):
                    sim.pause(0.05, stallable=False)
                c.sim = None
                for t in tasks:
                    if t.exc is not None:
                        raise t.exc
                for v in Vs:
                    V.extend(v)
                if not V:
                    group_digests = [traj_digest(h) for h in hs]
                if not V and G >= 2 and cfg["kind"] != "ensemble" and sc.get("pair_exchange", True):
                    pair_exchange(V, hs[0], hs[1], stats)
                events_digest = digest(sim.events)
    finally:
        c.sim = None
        sim.shutdown_all()
    stats["sim_switches"] += sim.stats["switches"]
    stats["fault_stall"] += sim.stats["stalls"]
    for k2, v in c.stats.items():
        stats[k2] += v
    # ---- solo re-runs on private copies with the same generator seeds
    if not V and G > 1:
        stats["fault_interleaved_groups"] += 1
        for k in range(G):
            c2 = rctx.new_run(cfg["seed"], faults=sc["faults"])
            seams.seed_global_streams(cfg["seed"])
            with seams.Seams(clock=seams.FakeClock()):
                inputs2 = lc.make_inputs(cfg)
                snap2 = lc.snapshot_inputs(inputs2)
                V2 = []
                try:
                    h = lc.Harnessed(cfg, "s%d" % k, inputs=inputs2, private=True, seed_group=(cfg["seed"] + k) & 0x7FFFFFFF)
                    run_ops(h, sc["ops"][k], V2, collections.Counter(), inputs2, snap2, None)
                except LibRaised as e:
                    _viol(V2, "op.raised", "solo s%d: %s" % (k, e))
                if V2:
                    V.extend(V2)
                    break
                dg = traj_digest(h)
                if dg != group_digests[k]:
                    S, P = h.rows()
                    _viol(V, "independence", "sampler s%d of %d built from the same input arrays: its trajectory when interleaved "
                          "with the others differs from its trajectory alone on private copies (same generator seeds, same ops %r)"
                          % (k, G, sc["ops"][k]))
                    break
                stats["solo_vs_group_compared"] += 1
    nsteps = sum(1 for ops in sc["ops"] for o in ops if o[0] == "step" or (o[0] == "advance" and o[1] > 0))
    nontrivial = nsteps > 0 and (G > 1 or any(o[0] == "exchange" for ops in sc["ops"] for o in ops)
                                 or c.stats["fault_tail_draw"] + c.stats["fault_edge_uniform"] > 0)
    return dict(violations=V, stats=dict(stats), digest=digest([events_digest, group_digests]), nontrivial=bool(nontrivial),
                shape="%s/g%d/%s" % (cfg["kind"], G, "|".join(",".join(o[0] for o in ops) for ops in sc["ops"])),
                sim_seconds=sim.now)


def describe():
    return dict(
        rule=("Hypothesis-generated histories (sampler class incl. MetropolisChain and EnsembleSampler, d<=3 and in 1/12 of them 5-9, temperature, "
              "bounds, target incl. -inf moats, fault switches) of take_step / advance / exchange (foreign point installed "
              "through the real worker loop) on groups of 1-4 samplers built from the SAME start/width/bounds objects and "
              "interleaved at every posterior call by a seeded scheduler; each sampler is then re-run alone on private "
              "copies; at most one run of 300-5000 steps per history, save/load restarts, read-only inspections. Non-trivial = at least one step and (a group of >=2, or an exchange, or a fired RNG fault); distinct = "
              "distinct scenario digest."),
        real_vs_stub=dict(real=["GibbsChain", "MetropolisChain", "PcaChain", "HamiltonianChain", "EnsembleSampler",
                                "tempering_process (update_position path)", "Bounds"],
                          stub=["entropy behind default_rng (recording PCG64 proxies)", "time.time", "scheduler that "
                                "interleaves samplers at posterior calls", "scripted connection feeding the worker loop"]),
        assumptions=["posterior is a pure function of its argument (harness targets)",
                     "log-prob equality tolerance 1e-9 relative/absolute"],
    )
