"""C14 - burn / thin / interval read-outs select exactly the documented samples.

Model = the vector of rows (sample, log-prob) read at burn=0, thin=1 after each operation
of an E1 history (steps, advances, exchanges, save/load restarts).  DESIGN.md 3.6.
"""
import collections

import numpy as np
from hypothesis import strategies as st

from simkit import ctx as rctx, lifecycle as lc, oracles, seams
from simkit.driver import digest
from simkit.oracles import LibRaised, lib_call
from simkit.rng import sync_generators

PROPERTY = "C14"
LEVEL = "exploration"


def plan(tier):
    if tier == "thorough":
        return dict(rounds=960, examples_per_round=100, wall_cap=3000, job_timeout=1500)
    return dict(rounds=96, examples_per_round=60, wall_cap=420, job_timeout=600)


_burn = st.one_of(st.sampled_from([0, 0, 1, 2]), st.integers(0, 40), st.sampled_from(["len-1", "len", "len+3", "len-2"]),
                  st.sampled_from([100, 257, 999, 1000, 2047]))
_thin = st.one_of(st.sampled_from([1, 1, 2, 3]), st.integers(1, 12), st.sampled_from(["len+1"]), st.sampled_from([50, 100, 333]))

_LONG = [1000, 2500, 4100, 4200, 5000, 6000]  # read-outs of more than 4096 rows are the point here


@st.composite
def _scenario(draw, tier):
    cfg = draw(lc.sampler_config(max_d=3))
    ops = []
    for _ in range(draw(st.integers(1, 6))):
        if cfg["kind"] == "ensemble":
            k = draw(st.sampled_from(["advance", "advance", "restart", "advance", "advance", "restart", "interrupt"]))
            if k == "interrupt":
                ops.append(["interrupt", draw(st.sampled_from([1, 2, 4])), draw(st.integers(1, 30))])
            elif k == "advance":
                ops.append(["advance", lc.maybe_long(draw, draw(st.sampled_from([0, 1, 2, 3, 6])), cfg, sizes=_LONG)])
            else:
                ops.append(["restart"])
        else:
            k = draw(st.sampled_from(["step", "advance", "advance", "exchange", "restart", "scribble", "step", "advance", "advance",
                                      "exchange", "restart", "interrupt"]))
            if k == "interrupt":
                # an advance that the posterior interrupts by raising (an error, Ctrl-C); the caller keeps the chain and reads it
                ops.append(["interrupt", draw(st.sampled_from([1, 3, 12])), draw(st.integers(1, 40))])
            elif k == "step":
                ops.append(["step"])
            elif k == "advance":
                ops.append(["advance", lc.maybe_long(draw, draw(st.sampled_from([0, 1, 2, 5, 11, 30, 64])), cfg, sizes=_LONG)])
            elif k == "exchange":
                ops.append(["exchange", draw(st.integers(0, 2 ** 16))])
            elif k == "scribble":
                ops.append(["scribble"])
            else:
                ops.append(["restart"])
        q = []
        for _ in range(draw(st.integers(1, 3))):
            q.append(["readout", draw(_burn), draw(_thin)])
        for _ in range(draw(st.integers(0, 2))):
            q.append(["interval", draw(st.sampled_from([0.95, 0.5, 0.9, 0.1, 1.0, 0.999, 0.33])), draw(_burn), draw(_thin),
                      draw(st.sampled_from([None, None, 1, 2, 5, 17, 1000]))])
        if draw(st.integers(0, 9 if cfg["kind"] != "ensemble" else 3)) == 0:
            q.insert(draw(st.integers(0, len(q))), ["diag"])
        ops[-1].append(q)
    return dict(cfg=cfg, ops=ops, marginal=draw(st.booleans()), unimodal=draw(st.integers(0, 3)) == 0)


def scenarios(tier):
    return _scenario(tier)


def _viol(V, inv, detail, **key):
    V.append(dict(invariant=inv, detail=detail, key=key))


def _res(v, n):
    if isinstance(v, str):
        return max(0, n + int(v[3:] or 0)) if v.startswith("len") else 0
    return int(v)


def check_readout(V, h, S, P, burn, thin, stats):
    n = S.shape[0]
    want_S = S[burn::thin]
    want_P = P[burn::thin]
    k = want_S.shape[0]
    tag = "%s burn=%d thin=%d (chain of %d rows, %d retained)" % (h.kind, burn, thin, n, k)
    npi = bool(h.cfg.get("np_ints"))
    b_, t_ = (np.int64(burn), np.int32(thin)) if npi else (burn, thin)
    try:
        gs = np.asarray(lib_call("get_sample", h.chain.get_sample, burn=b_, thin=t_))
        gp = np.asarray(lib_call("get_probabilities", h.chain.get_probabilities, burn=b_, thin=t_))
        params = [np.asarray(lib_call("get_parameter", h.chain.get_parameter, np.intp(i) if npi else i, burn=b_, thin=t_))
                  for i in range(h.d)]
    except LibRaised as e:
        _viol(V, "readout.raised", "%s: %s" % (tag, e))
        return
    stats["readouts"] += 1
    if k in (0, 1):
        stats["probe_readout_leaves_%d_rows" % k] += 1
    if k > 4096:
        stats["probe_readout_leaves_more_than_4096_rows"] += 1
    if gs.shape[0:1] != (k,) or (k >= 1 and gs.shape != (k, h.d)):
        _viol(V, "readout.sample", "%s: get_sample has shape %r, expected (%d, %d)" % (tag, gs.shape, k, h.d))
    elif k >= 1 and not np.array_equal(gs, want_S):
        _viol(V, "readout.sample", "%s: get_sample is not rows[burn::thin] of the full chain" % tag)
    if gp.shape != (k,):
        _viol(V, "readout.probs", "%s: get_probabilities has shape %r, expected (%d,)" % (tag, gp.shape, k))
    elif not np.array_equal(gp, want_P):
        _viol(V, "readout.probs", "%s: get_probabilities is not probs[burn::thin] of the full chain" % tag)
    for i, gpar in enumerate(params):
        if gpar.shape != (k,):
            _viol(V, "readout.parameter", "%s: get_parameter(%d) has shape %r, expected (%d,)" % (tag, i, gpar.shape, k))
            break
        if not np.array_equal(gpar, want_S[:, i] if k else np.zeros(0)):
            _viol(V, "readout.parameter", "%s: get_parameter(%d) is not column %d of rows[burn::thin]" % (tag, i, i))
            break


def check_marginal(V, h, S, burn, thin, stats, unimodal=False, cap=400):
    want = S[burn::thin]
    if want.shape[0] < (8 if unimodal else 4) or (unimodal and cap is not None and want.shape[0] > cap):
        return
    i = 0
    col = want[:, i]
    if np.ptp(col) <= 0 or (unimodal and np.unique(col).size < 6):
        return
    try:
        m = lib_call("get_marginal", h.chain.get_marginal, i, burn=burn, thin=thin, unimodal=unimodal)
    except LibRaised as e:
        if unimodal:
            stats["unimodal_fit_failed_skipped"] += 1  # the parametric fit may legitimately fail on odd samples
            return
        _viol(V, "marginal.raised", "%s burn=%d thin=%d: %s" % (h.kind, burn, thin, e))
        return
    stats["marginals_unimodal" if unimodal else "marginals"] += 1
    got = np.sort(np.asarray(m.sample, dtype=float).reshape(-1))
    if got.shape != col.shape or not np.array_equal(got, np.sort(col)):
        _viol(V, "marginal.sample", "%s burn=%d thin=%d unimodal=%r: marginal estimate of parameter %d was built from %d values that "
              "are not the %d burned/thinned samples" % (h.kind, burn, thin, unimodal, i, got.size, col.size))
        return
    fs = getattr(m, "fitted_samples", None) if unimodal else None
    if fs is not None:
        # the parametric estimate reports the values its final fit used: all of the burned/thinned samples
        fs = np.sort(np.asarray(fs, dtype=float).reshape(-1))
        stats["unimodal_fitted_values_checked"] += 1
        if fs.shape != col.shape or not np.array_equal(fs, np.sort(col)):
            _viol(V, "marginal.sample", "%s burn=%d thin=%d unimodal=True: the final fit of the marginal estimate of parameter %d used %d "
                  "values, the burned/thinned chain has %d" % (h.kind, burn, thin, i, fs.size, col.size))


def _top_ok(B_S, B_P, R, Q, f, exact_count, limit):
    """Is (R,Q) a legal answer for base rows (B_S,B_P), fraction f?  Returns '' or reason."""
    n = B_P.shape[0]
    if n == 0:
        return "" if R.shape[0] == 0 else "rows returned from an empty selection"
    n_keep = n - int(n * (1 - f))
    order = np.sort(B_P)[::-1]
    thr = order[min(n - 1, max(0, n_keep))]  # one row of slack on the cut
    if (Q < thr).any():
        return "a returned row has log-prob %r below the cut value %r of the top %g fraction" % (float(Q.min()), float(thr), f)
    # pairs must be rows of the base, with multiplicity
    pool = collections.Counter((B_S[k].tobytes(), float(B_P[k])) for k in range(n))
    for k in range(R.shape[0]):
        key = (np.ascontiguousarray(R[k]).tobytes(), float(Q[k]))
        if pool[key] <= 0:
            return "returned row %d (%r, log-prob %r) is not a row of the burned/thinned chain paired with its own log-prob" \
                   % (k, R[k].tolist(), float(Q[k]))
        pool[key] -= 1
    if exact_count and abs(R.shape[0] - n_keep) > 1:
        return "%d rows returned but the top %g fraction of %d rows has %d" % (R.shape[0], f, n, n_keep)
    if limit is not None and R.shape[0] > limit:
        return "%d rows returned but at most %d were requested" % (R.shape[0], limit)
    return ""


def check_interval(V, h, S, P, f, burn, thin, samples, stats):
    n = S.shape[0]
    tag = "%s get_interval(%g, burn=%d, thin=%d, samples=%r) on %d rows" % (h.kind, f, burn, thin, samples, n)
    if S[burn:].shape[0] == 0:
        return
    npi = bool(h.cfg.get("np_ints"))
    try:
        if npi:
            stats["fault_numpy_integer_arguments"] += 1
            R, Q = lib_call("get_interval", h.chain.get_interval, interval=f, burn=np.int64(burn), thin=np.int32(thin),
                            samples=None if samples is None else np.int64(samples))
        else:
            R, Q = lib_call("get_interval", h.chain.get_interval, interval=f, burn=burn, thin=thin, samples=samples)
    except LibRaised as e:
        _viol(V, "interval.raised", "%s: %s" % (tag, e))
        return
    stats["intervals"] += 1
    R, Q = np.asarray(R), np.asarray(Q)
    if R.ndim != 2 or Q.ndim != 1 or R.shape[0] != Q.shape[0] or (R.shape[0] and R.shape[1] != h.d):
        _viol(V, "interval.shape", "%s: returned arrays have shapes %r and %r (expected (k, %d) and (k,))" % (tag, R.shape, Q.shape, h.d))
        return
    R = R.astype(float)
    Q = Q.astype(float)
    if samples is None:
        why = _top_ok(S[burn::thin], P[burn::thin], R, Q, f, True, None)
    else:
        stats["probe_interval_with_count"] += 1
        nb = S[burn:].shape[0]
        cands = [max(nb // samples, 1), thin]
        why = None
        for t in cands:
            w = _top_ok(S[burn::t], P[burn::t], R, Q, f, False, samples)
            if w == "":
                why = ""
                break
            why = why or w
        if why == "" and R.shape[0] < min(samples, 1):
            pass
    if why:
        _viol(V, "interval.content", "%s: %s" % (tag, why))


def execute(sc):
    stats = collections.Counter()
    V = []
    cfg = sc["cfg"]
    c = rctx.new_run(cfg["seed"])
    seams.seed_global_streams(cfg["seed"])
    restarts = 0
    prev_n = 0
    hist = None
    try:
        with seams.Seams(clock=seams.FakeClock()):
            try:
                h = lc.Harnessed(cfg, "s0")
            except LibRaised as e:
                _viol(V, "op.raised", str(e))
                h = None
            for op in (sc["ops"] if h is not None else []):
                if V:
                    break
                name = op[0]
                queries = op[-1]
                stats["op_" + name] += 1
                try:
                    if name == "step":
                        lc.op_step(h)
                    elif name == "advance":
                        lc.op_advance(h, op[1])
                    elif name == "interrupt":
                        if lc.op_interrupted_advance(h, op[1], op[2]):
                            stats["probe_operation_interrupted_by_the_posterior"] += 1
                    elif name == "exchange":
                        g = np.random.Generator(np.random.PCG64([op[1], 17]))
                        pos = h.foreign_point(h.target.draw(g, h.T if cfg["target"]["kind"] != "banana" else 1.0))
                        lc.op_exchange(h, pos, h.target.logpdf(pos))
                        stats["fault_exchange_installs_foreign_point"] += 1
                    elif name == "scribble":
                        # the caller re-uses its start array: the chain already recorded must read out unchanged
                        S0, P0 = h.rows()
                        st_arr = h.inputs["start"]
                        if not (isinstance(st_arr, np.ndarray) and st_arr.flags.writeable):
                            continue  # a list / read-only array cannot be overwritten in place
                        st_arr += (1000 + np.arange(st_arr.size)).reshape(st_arr.shape).astype(st_arr.dtype)
                        stats["fault_caller_overwrites_start_array"] += 1
                        S1, P1 = h.rows()
                        if S1.shape != S0.shape or not np.array_equal(S1, S0) or not np.array_equal(P1, P0):
                            _viol(V, "readout.pure", "%s: the recorded chain changed when the caller overwrote the start array it had "
                                  "passed to the constructor (row(s) %r)" % (h.kind, np.nonzero((S1 != S0).any(axis=1))[0][:3].tolist()
                                                                             if S1.shape == S0.shape else "shape"))
                            break
                    elif name == "restart":
                        try:
                            old = lc.op_restart(h, "r%d" % restarts)
                        except LibRaised:
                            stats["restart_failed_skipped"] += 1  # C09's business, not C14's
                            continue
                        sync_generators(h.chain, old)
                        restarts += 1
                        stats["fault_crash_restart"] += 1
                except (lc.StepExhausted, rctx.Runaway):
                    stats["hmc_step_exhausted_or_runaway"] += 1
                    break
                except LibRaised as e:
                    stats["op_failed_skipped"] += 1  # other checks own op failures
                    break
                try:
                    S, P = h.rows()
                except LibRaised as e:
                    _viol(V, "readout.raised", "full read-out: %s" % e)
                    break
                if S.ndim != 2 or S.shape[0] != P.shape[0]:
                    _viol(V, "readout.aligned", "%s: full read-outs have shapes %r and %r" % (h.kind, S.shape, P.shape))
                    break
                n = S.shape[0]
                # "the full chain" is the chain as it was generated: entries read out earlier stay what they were when the
                # chain is advanced further (an exchange replaces the last entry only)
                if hist is not None:
                    S0_, P0_ = hist
                    keep = S0_.shape[0] - (1 if name == "exchange" else 0)
                    if n < S0_.shape[0] or not np.array_equal(S[:keep], S0_[:keep]) or not np.array_equal(P[:keep], P0_[:keep]):
                        rows_ = np.nonzero((S[:keep] != S0_[:keep]).any(axis=1))[0][:3].tolist() if n >= S0_.shape[0] else "fewer rows"
                        _viol(V, "readout.history", "%s: after %r entries of the chain that had been read out before changed "
                              "(row(s) %r of %d earlier rows): burn/thin read-outs no longer select entries of the chain as generated"
                              % (h.kind, op[:-1], rows_, S0_.shape[0]))
                        break
                    stats["history_prefix_checked"] += 1
                hist = (S, P)
                if n == 0:
                    continue
                # rows and log-probabilities of the full chain are aligned: each row carries its own value
                bad = oracles.check_probs_belong(h.chain, h.target, h.T, start=max(0, prev_n - 1), label="%s " % h.kind)
                prev_n = n
                if bad:
                    _viol(V, "readout.aligned", "after %r: sample and log-probability read-outs are not aligned row for row: %s" % (op[:-1], bad[0]))
                    break
                for q in queries:
                    if V:
                        break
                    if q[0] == "diag":
                        # diagnostics are read-only too: whatever they do, the chain must read out the same afterwards
                        import matplotlib.pyplot as plt

                        try:
                            if h.kind == "ensemble":
                                h.chain.plot_diagnostics()
                            elif n >= 12:
                                h.chain.plot_diagnostics(show=False)
                            stats["diagnostic_calls"] += 1
                        except Exception:  # noqa - whether the plot works is not C14's business
                            pass
                        finally:
                            plt.close("all")
                    elif q[0] == "readout":
                        b, t = _res(q[1], n), max(1, _res(q[2], n))
                        check_readout(V, h, S, P, b, t, stats)
                        if sc["marginal"] and not V:
                            check_marginal(V, h, S, b, t, stats)
                            if sc.get("unimodal") and not V and t > 1:
                                check_marginal(V, h, S, b, t, stats, unimodal=True)
                    else:
                        b, t = _res(q[2], n), max(1, _res(q[3], n))
                        check_interval(V, h, S, P, q[1], b, t, q[4], stats)
                    if not V:
                        # a read-out must not change the chain it reads
                        S2, P2 = h.rows()
                        if S2.shape != S.shape or not np.array_equal(S2, S) or not np.array_equal(P2, P):
                            _viol(V, "readout.pure", "%s: the stored chain changed as a side effect of the read-out %r "
                                  "(samples equal: %s, log-probabilities equal: %s)"
                                  % (h.kind, q, S2.shape == S.shape and np.array_equal(S2, S), P2.shape == P.shape and np.array_equal(P2, P)))
    finally:
        lc.cleanup_scratch()
    for k2, v in c.stats.items():
        stats[k2] += v
    nontrivial = stats["readouts"] + stats["intervals"] > 0 and any(
        o[0] in ("step", "exchange") or (o[0] in ("advance", "interrupt") and o[1] > 0) for o in sc["ops"])
    return dict(violations=V, stats=dict(stats), digest=digest(sc), nontrivial=bool(nontrivial),
                shape="%s/%s" % (cfg["kind"], ",".join(o[0] for o in sc["ops"])), sim_seconds=0.0)


def stat_jobs(tier, seed):
    """One long chain whose unimodal marginal is fitted to more than 8000 retained values (the estimate's own
    two-stage fit only starts thinning above 4000)."""
    return [dict(kind="big_unimodal", seed=int(seed) & 0x7FFFFFFF, n=8600 if tier != "thorough" else 17000)]


def run_job(job):
    stats = collections.Counter()
    V = []
    cfg = dict(kind="gibbs", d=1, T=1.0, seed=job["seed"], display=False, target=dict(kind="gauss", d=1), bounds=None, widths=[1.0],
               epsilon=0.2, knobs=dict(chk_int=100, max_tries=50, dir_update_interval=100, steps=3, es_chk_int=15, alpha=2.0))
    c = rctx.new_run(cfg["seed"], record=False)
    seams.seed_global_streams(cfg["seed"])
    with seams.Seams(clock=seams.FakeClock()):
        h = lc.Harnessed(cfg, "s0")
        lc.op_advance(h, int(job["n"]))
        S, P = h.rows()
        for burn, thin in ((100, 1), (300, 1) if job["n"] < 12000 else (1000, 2)):
            if not V:
                check_readout(V, h, S, P, burn, thin, stats)
            if not V:
                check_marginal(V, h, S, burn, thin, stats, unimodal=True, cap=None)
    for k2, v in c.stats.items():
        stats[k2] += v
    stats["probe_unimodal_marginal_of_more_than_8000_values"] += stats["marginals_unimodal"]
    return dict(violations=V, stats=dict(stats), evaluations=1, digests=[digest(job)], nontrivial_ids=[digest(job)],
                sample=dict(job=job, rows=int(S.shape[0])))


def describe():
    return dict(
        rule=("Hypothesis-generated E1 histories (all five sampler classes; steps, advances, exchanges installing foreign "
              "points, save/load restarts, advances interrupted by the posterior raising an error / StopIteration / KeyboardInterrupt) with seeded burn/thin/interval/sample-count queries after every operation, including "
              "burn >= length, burn = length-1, thin > length, burn up to 2047 / thin up to 333 and chains of more than 4096 rows. Model = rows read at burn=0, thin=1. Non-trivial = at least one "
              "read-out query on a chain that took at least one step; distinct = distinct scenario digest."),
        real_vs_stub=dict(real=["get_sample/get_parameter/get_probabilities/get_interval/get_marginal of every sampler class",
                                "GaussianKDE constructor", "save/load", "tempering_process (update_position path)"],
                          stub=["entropy behind default_rng and numpy.random.permutation (seeded)", "time.time"]),
        assumptions=["the size of 'the top fraction f of n rows' is n - int(n(1-f)) with one row of slack",
                     "with a sample count, the thinning applied is either the caller's or max(n_burned // count, 1)"],
    )
