"""C01 - MCMC samplers draw from the posterior the user supplied.

Layer A (Hypothesis scenarios): history refinement - the recorded history of random
draws and posterior evaluations of every step is parsed into attempts and each attempt
is checked against the Metropolis-Hastings rule for the move that was proposed.
Layer B (stat jobs): conservation - one attempt (or k attempts) started from an exact draw
of pi^(1/T) must leave the law unchanged; exact-null tests over seeded replica ensembles.
Layer C (stat jobs): long run of the returned samples against the target's moments.
DESIGN.md 3.1.
"""
import collections
import math

import numpy as np
from hypothesis import strategies as st
from scipy import stats as sps

from simkit import build, ctx as rctx, lifecycle as lc, oracles, seams, targets
from simkit.driver import digest
from simkit.oracles import LibRaised, lib_call
from simkit.rng import sync_generators

PROPERTY = "C01"
LEVEL = "exploration"
TIE = 1e-9


def plan(tier):
    if tier == "thorough":
        return dict(rounds=640, examples_per_round=100, wall_cap=3300, job_timeout=2400)
    return dict(rounds=64, examples_per_round=60, wall_cap=420, job_timeout=900)


# ================================================================== Layer A
@st.composite
def _scenario(draw, tier):
    cfg = draw(lc.sampler_config(max_d=3, temps=(1.0, 1.0, 2.0, 5.0)))
    if cfg["kind"] == "hmc":
        cfg["knobs"]["finite_diff"] = False
    if cfg["kind"] == "ensemble":
        cfg["knobs"]["max_attempts"] = draw(st.sampled_from([1, 1, 3, 100]))
    ops = []
    for _ in range(draw(st.integers(1, 4))):
        k = draw(st.sampled_from(["steps", "steps", "steps", "steps", "exchange", "estimate_mass", "restart"]
                                 + (["estimate_mass", "estimate_mass", "steps"] if cfg["kind"] == "hmc" else [])))
        if k == "restart":
            # save / load; the file is loaded twice and the second restored sampler keeps stepping next to this one
            ops.append(["restart"])
        elif k == "estimate_mass" and cfg["kind"] == "hmc":
            if not any(o[0] == "steps" and o[1] >= 20 for o in ops):
                ops.append(["steps", 20])  # (the re-tuning needs 2d + 6 samples)
            ops.append(["estimate_mass", draw(st.booleans())])
            ops.append(["steps", draw(st.sampled_from([3, 8]))])
        elif k == "steps" or cfg["kind"] == "ensemble" or k == "estimate_mass":
            ops.append(["steps", draw(st.sampled_from([1, 3, 8, 20]))])
        else:
            ops.append(["exchange", draw(st.integers(0, 2 ** 16))])
    return dict(cfg=cfg, ops=ops,
                # a second sampler built from the very same input objects (start array, widths, bounds) steps in between
                sibling=draw(st.integers(0, 5)) == 0,
                faults=dict(tail_p=draw(st.sampled_from([0.0, 0.0, 0.05])), edge_u_p=draw(st.sampled_from([0.0, 0.05, 0.2]))))


def scenarios(tier):
    return _scenario(tier)


def _viol(V, inv, detail, value=None, **key):
    d = dict(invariant=inv, detail=detail, key=key)
    if value is not None:
        d["value"] = value
    V.append(d)


def _events(c, label, seq0):
    """Merged, ordered history of one sampler since seq0: ('post', theta, value) /
    ('grad', theta) / ('rng', method, args, result, gen_name)."""
    ev = []
    for (seq, kind, th, v) in c.post_logs.get(label, []):
        if seq > seq0:
            ev.append((seq, kind, th, v))
    for nm, log in c.rng_logs.items():
        if nm.startswith(label + ".") or nm.startswith(label + "'"):
            for (seq, meth, args, res) in log:
                if seq > seq0:
                    ev.append((seq, "rng", meth, args, res, nm))
                    if meth in ("random", "uniform") and not _scalar(res):
                        # uniforms drawn in blocks: which of them a decision used cannot be read off the log
                        c.block_uniforms = True
    ev.sort(key=lambda e: e[0])
    return ev


def _scalar(x):
    """A scalar draw (array draws are logged as arrays or ('ndarray', shape) summaries)."""
    return isinstance(x, (int, float, np.floating, np.integer)) or (isinstance(x, np.ndarray) and x.ndim == 0)


def _uniform_after(ev, k):
    """Scalar uniforms that can belong to the decision on the evaluation at event index k: the
    first one drawn after it (before the next evaluation) and, because the property does not
    fix *when* the uniform is requested, also those drawn since the previous evaluation.
    Returns a list (first element: the one drawn after, if any)."""
    out = []
    for e in ev[k + 1:]:
        if e[1] == "post":
            break
        if e[1] == "rng" and e[2] in ("random", "uniform") and _scalar(e[4]):
            out.append(float(e[4]))
            break
    for e in reversed(ev[:k]):
        if e[1] == "post":
            break
        if e[1] == "rng" and e[2] in ("random", "uniform") and _scalar(e[4]):
            out.append(float(e[4]))
    return out


COLLECT = None  # layer D: list of (stratum, log ratio, accepted) for every judged attempt of a run


def _judge(V, stats, kind, accepted, delta, u, what, extra=0.0, scale=0.0, feature="all"):
    """MH rule: accepted <=> u < exp(delta + extra) (ties skipped; no uniform => must be uphill).
    `scale` = magnitude of the terms whose difference is delta: a log ratio that is a difference of
    huge numbers (tail draws) is only known to ~1e-12 * scale and is not judged inside that band."""
    stats["attempts_judged"] += 1
    la = delta + extra
    if math.isnan(la):
        stats["warn_nan_log_ratio"] += 1
        return
    if COLLECT is not None:
        COLLECT.append((feature, la, bool(accepted)))
    unc = 1e-12 * abs(scale)
    if unc > 0:
        if abs(la) <= unc:
            stats["indeterminate_skipped"] += 1
            return
        us_ = [u] if isinstance(u, float) else list(u or [])
        lo_q = math.exp(min(la - unc, 0.0)) if la - unc > -745 else 0.0
        hi_q = math.exp(min(la + unc, 0.0)) if la + unc > -745 else 0.0
        if any(lo_q <= c_ <= hi_q for c_ in us_):
            stats["indeterminate_skipped"] += 1
            return
    if la > 0 and abs(la) > TIE:
        if not accepted:
            _viol(V, "A.decision", "%s: %s has log acceptance ratio %+.6g > 0 (probability 1) but was rejected" % (kind, what, la))
        return
    us = [u] if isinstance(u, float) else list(u or [])
    if getattr(rctx.get(), "block_uniforms", False):
        # only the rule that needs no uniform (an uphill move is accepted) was judged above
        stats["warn_uninterpretable_block_uniforms"] += 1
        return
    if not us:
        if accepted and la < -TIE:
            stats["warn_uninterpretable_no_uniform"] += 1
        return
    q = math.exp(la) if la > -745 else 0.0
    for cand in us:
        if abs(cand - q) < 1e-12 + 1e-9 * q:
            stats["ties_skipped"] += 1
            return
        if accepted == (cand < q):
            return
    _viol(V, "A.decision", "%s: %s was %s although the uniform(s) drawn around the decision are %s and the Metropolis-Hastings "
          "probability of the proposed move is %.9g (log ratio %+.6g)"
          % (kind, what, "accepted" if accepted else "rejected", ", ".join("%.9g" % c for c in us), q, la))


def refine_coordinatewise(V, stats, h, ev, w, kind):
    """Gibbs / PCA: a step is a sequence of 1-D Metropolis updates, each retried until
    accepted.  w = state before the step.  Returns the state after the step."""
    T = h.T
    posts = [k for k, e in enumerate(ev) if e[1] == "post"]
    w = w.copy()
    Lw = h.target.logpdf(w)
    pend = None  # (k, y, val)
    d = h.d

    def same_line(y, base, prev):
        """Is y on the line through `base` in the direction of (prev - base)?  (A retry of the same
        1-D update.)  Decided by the residual orthogonal to that direction against rounding noise -
        an accepted update followed by a *tiny* step in another direction must not be mistaken for it."""
        if kind == "gibbs":
            j = np.nonzero(prev != base)[0]
            if j.size != 1:
                return True
            other = np.ones(len(y), dtype=bool)
            other[j[0]] = False
            return bool(np.array_equal(y[other], base[other]))
        a, b = y - base, prev - base
        nb = float(b @ b)
        if nb == 0:
            return True
        r = a - (float(a @ b) / nb) * b
        # rounding in y and base enters the residual absolutely; rounding in prev only through the direction of b
        # (a far-tail retry at 1e8 must not blur the test for the attempts that follow it)
        na = float(np.sqrt(a @ a))
        noise = 1e-12 * (float(np.max(np.abs(y))) + float(np.max(np.abs(base))) + 1e-300) \
            + 1e-12 * na * (float(np.max(np.abs(prev))) + float(np.max(np.abs(base)))) / float(np.sqrt(nb))
        return float(np.max(np.abs(r))) <= noise

    for k in posts:
        y, val = ev[k][2], ev[k][3]
        if pend is not None and d > 1 and np.array_equal(pend[1], w):
            # a proposal identical to the current state (a degenerate width, or a far-tail draw folded onto the
            # boundary the coordinate sits on): accepted or not, the state is the same - nothing to judge
            stats["null_moves_not_judged"] += 1
            pend = None
        if pend is not None:
            pk, py, pval = pend
            same_dir = same_line(y, w, py) if d > 1 else True
            if kind == "gibbs" and d > 1 and np.array_equal(y, py):
                # the same point evaluated twice: a retry that drew the identical value, or the update was accepted
                # and the NEXT coordinate's proposal left it where it is.  Told apart by the coordinate the
                # proposal draw in between is centred on; otherwise not interpretable.
                jp = np.nonzero(py != w)[0]
                loc = None
                for e in reversed(ev[:k]):
                    if e[1] == "post":
                        break
                    if e[1] == "rng" and e[2] == "normal" and _scalar(e[4]) and _scalar(e[3][0]):
                        loc = float(e[3][0])
                        break
                others = [float(py[j]) for j in range(d) if jp.size == 1 and j != jp[0]]
                if loc is not None and jp.size == 1 and loc in others and loc != float(w[jp[0]]):
                    same_dir = False
                elif loc is not None and jp.size == 1 and loc == float(w[jp[0]]) and loc not in others:
                    same_dir = True
                else:
                    stats["warn_uninterpretable_geometry"] += 1
                    return None
                stats["identical_evaluations_disambiguated"] += 1
            if d == 1 or same_dir:
                acc = False
            else:
                acc = True
                if kind == "gibbs":
                    dj = np.nonzero(y != py)[0]
                    if dj.size > 1:
                        stats["warn_uninterpretable_geometry"] += 1
                        return None
            _judge(V, stats, kind, acc, (pval - Lw) / T, _uniform_after(ev, pk), "the move %r -> %r" % (w.tolist(), py.tolist()),
                   scale=(abs(pval) + abs(Lw)) / T)
            if acc:
                w, Lw = py.copy(), pval
        if kind == "gibbs":
            dj = np.nonzero(y != w)[0]
            if dj.size > 1:
                stats["warn_uninterpretable_geometry"] += 1
                return None
            # symmetric random walk: the normal draw before the evaluation is centred on the current coordinate
            for e in reversed(ev[:k]):
                if e[1] == "post":
                    break
                if e[1] == "rng" and e[2] == "normal" and _scalar(e[4]):
                    loc, scale = e[3][0], e[3][1]
                    if dj.size == 1 and _scalar(loc) and float(loc) != float(w[dj[0]]):
                        _viol(V, "A.proposal", "gibbs: proposal for parameter %d drawn about %r but the current value is %r "
                              "(proposal not centred on the current state)" % (dj[0], float(loc), float(w[dj[0]])))
                    if _scalar(scale) and not float(scale) > 0:
                        _viol(V, "A.proposal", "gibbs: proposal scale %r" % (scale,))
                    # the point that is evaluated (and stored if accepted) is the drawn value itself - passed through
                    # the limits set on that parameter, nothing else (no rounding, no truncation)
                    drawn = float(e[4])
                    if np.isfinite(drawn):
                        def image(j):
                            lo, hi = getattr(h, "limits", {}).get(int(j), (-np.inf, np.inf))
                            if np.isfinite(lo) and np.isfinite(hi):
                                return oracles.fold_exact(drawn, lo, hi)[0]
                            return abs(drawn) if np.isfinite(lo) else drawn
                        js = [int(dj[0])] if dj.size == 1 else list(range(d))
                        tol = 1e-9 * (1.0 + abs(drawn))
                        if not any(abs(image(j) - float(y[j])) <= tol for j in js):
                            _viol(V, "A.proposal", "gibbs: the proposal drawn for the update is %r but the point evaluated is %r "
                                  "(current state %r): the evaluated coordinate is not the drawn value (within the limits set)"
                                  % (drawn, y.tolist(), w.tolist()))
                        stats["gibbs_proposal_images_checked"] += 1
                    break
        pend = (k, y, val)
    if pend is not None:
        pk, py, pval = pend
        _judge(V, stats, kind, True, (pval - Lw) / T, _uniform_after(ev, pk), "the move %r -> %r" % (w.tolist(), py.tolist()),
               scale=(abs(pval) + abs(Lw)) / T)
        w = py.copy()
    return w


def refine_metropolis(V, stats, h, ev, w, kind="metropolis"):
    T = h.T
    posts = [k for k, e in enumerate(ev) if e[1] == "post"]
    Lw = h.target.logpdf(w)
    for n, k in enumerate(posts):
        y, val = ev[k][2], ev[k][3]
        acc = n == len(posts) - 1
        # every coordinate of the evaluated point is the value drawn for it, passed through that parameter's limits
        draws = []
        for e in reversed(ev[:k]):
            if e[1] == "post":
                break
            if e[1] == "rng" and e[2] == "normal" and _scalar(e[4]):
                draws.append(float(e[4]))
        draws.reverse()
        if len(draws) == h.d and np.all(np.isfinite(draws)):
            for j, drawn in enumerate(draws):
                lo, hi = getattr(h, "limits", {}).get(j, (-np.inf, np.inf))
                img = oracles.fold_exact(drawn, lo, hi)[0] if np.isfinite(lo) and np.isfinite(hi) else (abs(drawn) if np.isfinite(lo) else drawn)
                if abs(img - float(y[j])) > 1e-9 * (1.0 + abs(drawn)):
                    _viol(V, "A.proposal", "metropolis: the value drawn for parameter %d is %r but the point evaluated is %r: the evaluated "
                          "coordinate is not the drawn value (within the limits set)" % (j, drawn, y.tolist()))
                    break
            stats["metropolis_proposal_images_checked"] += 1
        _judge(V, stats, kind, acc, (val - Lw) / T, _uniform_after(ev, k), "the move %r -> %r" % (w.tolist(), y.tolist()),
               scale=(abs(val) + abs(Lw)) / T)
        if acc:
            w = y.copy()
    return w


class LeapfrogRecorder:
    """Recording wrapper installed as the instance attribute `run_leapfrog`.  Every 5th
    trajectory is immediately run backwards (end point, momentum negated, same step count,
    same step size) to measure how far the proposal is from being reversible."""

    def __init__(self, chain):
        self.inner = chain.run_leapfrog
        self.chain = chain
        self.calls = []
        self.n = 0

    def __call__(self, *args, **kw):
        # the signature of this (internal) method is not part of any property: (t, r, n_steps) on the pinned tree; a
        # refactor may pass more (e.g. a cached gradient).  Position and momentum are taken to be the first two arrays, the
        # step count the last integer; anything else is passed through untouched and the call is recorded as far as it
        # can be interpreted (refine_hmc gives up on `None` fields, it never alarms on them).
        arrs = [a for a in args if isinstance(a, np.ndarray)]
        ints = [a for a in list(args) + list(kw.values()) if isinstance(a, (int, np.integer)) and not isinstance(a, bool)]
        standard = len(args) == 3 and not kw and len(arrs) == 2 and len(ints) == 1
        t0 = np.array(arrs[0], dtype=float, copy=True) if len(arrs) >= 2 else None
        r0 = np.array(arrs[1], dtype=float, copy=True) if len(arrs) >= 2 else None
        n = int(ints[-1]) if ints else None
        out = self.inner(*args, **kw)
        c = rctx.get()
        outs = [o for o in out if isinstance(o, np.ndarray)] if isinstance(out, (tuple, list)) else []
        t1 = np.array(outs[0], dtype=float, copy=True) if len(outs) >= 2 else None
        r1 = np.array(outs[1], dtype=float, copy=True) if len(outs) >= 2 else None
        err = None
        self.n += 1
        if not standard:
            c.stats["warn_leapfrog_signature_not_the_pinned_one"] += 1
        if standard and t1 is not None and self.n % 5 == 0 and np.all(np.isfinite(t1)) and np.all(np.isfinite(r1)):
            was = c.record
            c.record = False
            try:
                tb, rb = self.inner(t1.copy(), -r1.copy(), n)
            finally:
                c.record = was
            scale = 1.0 + float(np.max(np.abs(t0))) + float(np.max(np.abs(t1)))
            err = max(float(np.max(np.abs(np.asarray(tb) - t0))) / scale,
                      float(np.max(np.abs(np.asarray(rb) + r0))) / (1.0 + float(np.max(np.abs(r0))) + float(np.max(np.abs(r1)))))
        eps = getattr(getattr(self.chain, "ES", None), "epsilon", None)
        self.calls.append((c.seq, t0, r0, n, t1, r1, err, None if eps is None else float(eps)))
        return out


class _ProbeDone(BaseException):
    """Ends the twin's step of `reverse_step_probe` at its first posterior evaluation."""


def reverse_step_probe(V, stats, h, pre, ev, call):
    """"Proposals are reversible", decided through the public API only (no assumption about internal method signatures):
    `pre` is a deep copy of the chain taken before the step whose first attempt proposed (t0, r0) -> (t1, r1).  The copy
    is handed the point t1 the way a tempering exchange hands over a point (replace_last + log-probability, through the
    real worker loop), its generator is scripted so that it draws the momentum -r1 and the same trajectory length, and it
    takes a step: the first point at which it evaluates the posterior must be t0."""
    from simkit.rng import ScriptedGenerator

    _, t0, r0, ns, t1, r1, _e, eps_used = call
    if t0 is None or t1 is None or ns is None or eps_used is None or h.cfg["knobs"].get("finite_diff"):
        return
    if not (np.all(np.isfinite(t1)) and np.all(np.isfinite(r1))) or not np.isfinite(h.target.logpdf(t1)):
        return
    # the uniform that fixed the trajectory length: the only scalar uniform drawn before the first evaluation
    us = []
    for e in ev:
        if e[1] == "post":
            break
        if e[1] == "rng" and e[2] in ("random", "uniform"):
            if not _scalar(e[4]):
                return
            us.append(float(e[4]))
    if len(us) != 1:
        stats["reverse_step_probe_not_interpretable"] += 1
        return
    im_ = h.cfg["knobs"].get("inverse_mass")
    imax_ = float(np.max(np.abs(np.asarray(im_, dtype=float)))) if im_ is not None else 1.0
    excursion = eps_used * max(1, ns) * imax_ * float(np.max(np.abs(r0)))
    tame = _stiffness(h, eps_used) <= 3.0 and float(np.max(np.abs(r1))) <= 100.0 * (1.0 + float(np.max(np.abs(r0)))) and \
        excursion <= 1e6 * (1.0 + float(np.max(np.abs(t0))))
    if not tame:
        return
    c = rctx.get()
    d = h.d
    was, mons = c.record, list(c.monitors)
    c.record = False
    seen = []

    def first_eval(kind, tag, th):
        if kind == "post":
            seen.append(np.array(th, dtype=float, copy=True))
            raise _ProbeDone()

    try:
        mass = pre.mass
        o_ = np.asarray(mass.sample_momentum(ScriptedGenerator(normals=[0.0] * d)), dtype=float).reshape(-1)
        A = np.zeros((d, d))
        for i in range(d):
            e_ = [0.0] * d
            e_[i] = 1.0
            A[:, i] = np.asarray(mass.sample_momentum(ScriptedGenerator(normals=e_)), dtype=float).reshape(-1) - o_
        z = np.linalg.solve(A, -r1 - o_)
        eps_pre = float(pre.ES.epsilon)
    except Exception:  # noqa - momenta drawn another way: the probe cannot be set up
        c.record = was
        stats["reverse_step_probe_not_interpretable"] += 1
        return
    if eps_pre != eps_used:
        c.record = was
        return
    try:
        import copy as _copy

        h2 = _copy.copy(h)
        h2.chain = pre
        lc.op_exchange(h2, t1.copy(), h.target.logpdf(t1))
        pre.rng = ScriptedGenerator(normals=[float(v) for v in z], uniforms=[us[0]] + [0.5] * 64)
        c.monitors.append(first_eval)
        try:
            pre.take_step()
        except _ProbeDone:
            pass
    except LibRaised:
        stats["reverse_step_probe_not_interpretable"] += 1
        return
    except Exception:  # noqa - e.g. the scripted generator lacks a method the step uses
        stats["reverse_step_probe_not_interpretable"] += 1
        return
    finally:
        c.monitors[:] = mons
        c.record = was
    if not seen:
        stats["reverse_step_probe_not_interpretable"] += 1
        return
    stats["hmc_reverse_steps_through_public_api"] += 1
    tb = seen[0]
    scale = 1.0 + float(np.max(np.abs(t0))) + float(np.max(np.abs(t1)))
    err = float(np.max(np.abs(tb - t0))) / scale
    stiff = _stiffness(h, eps_used) ** max(1, ns)
    if err > 1e-6 * max(1.0, stiff):
        bounded = h.cfg["bounds"] is not None
        matrix = np.ndim(h.cfg["knobs"].get("inverse_mass")) == 2
        _viol(V, "A.reversible", "hmc: proposal is not reversible: a step from t=%r with momentum %r proposed t=%r (end momentum %r, %d "
              "leapfrog steps); a chain handed that point (replace_last, as in a tempering exchange) and drawing the negated end "
              "momentum and the same trajectory length proposes %r, %.3g (relative) away from where the first step started"
              % (t0.tolist(), r0.tolist(), t1.tolist(), r1.tolist(), ns, tb.tolist(), err),
              sampler="hmc-bounded-matrix-mass" if (bounded and matrix) else "hmc")


def momentum_law(V, stats, h):
    """The momentum refresh must draw r ~ N(0, M) for the same M whose inverse defines the kinetic
    energy in the accept rule (otherwise the refresh does not preserve exp(-H)).  The map z -> r is
    obtained black-box by feeding unit vectors through mass.sample_momentum(ScriptedGenerator)."""
    from simkit.rng import ScriptedGenerator

    mass = getattr(h.chain, "mass", None)
    if mass is None or not hasattr(mass, "sample_momentum"):
        stats["warn_uninterpretable_momentum"] += 1
        return
    d = h.d
    try:
        r0 = np.asarray(mass.sample_momentum(ScriptedGenerator(normals=[0.0] * d)), dtype=float).reshape(-1)
        A = np.zeros((d, d))
        for i in range(d):
            e = [0.0] * d
            e[i] = 1.0
            A[:, i] = np.asarray(mass.sample_momentum(ScriptedGenerator(normals=e)), dtype=float).reshape(-1) - r0
    except Exception:  # noqa - a different way of drawing momenta: not interpretable, layer B still applies
        stats["warn_uninterpretable_momentum"] += 1
        return
    im = h.cfg["knobs"].get("inverse_mass")
    IM = np.eye(d) if im is None else (np.asarray(im, dtype=float) if np.ndim(im) == 2 else np.diag(np.broadcast_to(np.asarray(im, dtype=float), (d,))))
    cov_r = A @ A.T
    stats["momentum_law_checked"] += 1
    err = float(np.max(np.abs(cov_r @ IM - np.eye(d))))
    if np.max(np.abs(r0)) > 1e-12 or err > 1e-8:
        _viol(V, "A.momentum", "hmc: momenta are drawn as r = A z with A A^T = %r, but the kinetic energy in the accept rule is "
              "0.5 r^T W r with W = inverse_mass = %r; A A^T W should be the identity (max deviation %.3g)"
              % (np.round(cov_r, 6).tolist(), IM.tolist(), err))


def _kinetic(h, r):
    im = h.cfg["knobs"].get("inverse_mass")
    if im is None:
        return 0.5 * float(r @ r)
    im = np.asarray(im, dtype=float)
    if im.ndim == 2:
        return 0.5 * float(r @ im @ r)
    return 0.5 * float(np.sum(im * r * r))


def refine_hmc(V, stats, h, ev, w, rec, seq0):
    T = h.T
    calls = [cl for cl in rec.calls if cl[0] >= seq0]
    posts = [k for k, e in enumerate(ev) if e[1] == "post"]
    if len(calls) != len(posts):
        stats["warn_uninterpretable_hmc"] += 1
        return None
    Lw = h.target.logpdf(w)
    for n, (k, cl) in enumerate(zip(posts, calls)):
        _, t0, r0, ns, t1, r1, _e, eps_used = cl
        y, val = ev[k][2], ev[k][3]
        if t0 is None or t1 is None or ns is None or not np.array_equal(y, t1):
            stats["warn_uninterpretable_hmc"] += 1
            return None
        if not np.array_equal(t0, w):
            _viol(V, "A.proposal", "hmc: trajectory started at %r but the current state is %r" % (t0.tolist(), w.tolist()))
            return None
        acc = n == len(posts) - 1
        H0 = _kinetic(h, r0) - Lw / T
        H1 = _kinetic(h, r1) - val / T
        _judge(V, stats, "hmc", acc, H0 - H1, _uniform_after(ev, k),
               "the trajectory %r -> %r (H0=%.9g, H1=%.9g)" % (t0.tolist(), t1.tolist(), H0, H1),
               scale=abs(_kinetic(h, r0)) + abs(_kinetic(h, r1)) + (abs(Lw) + abs(val)) / T,
               feature="long trajectory" if ns >= int(getattr(h.chain, "steps", ns)) else "short trajectory")
        # reversibility of the actual proposal (measured by the recorder right after the forward run)
        err = cl[6]
        im_ = h.cfg["knobs"].get("inverse_mass")
        imax_ = float(np.max(np.abs(np.asarray(im_, dtype=float)))) if im_ is not None else 1.0
        # raw excursion of the trajectory: beyond ~1e6 x the scale of the positions (e.g. after an injected
        # tail draw of the momentum) floating point no longer resolves the return path
        excursion = (eps_used or 0.0) * max(1, ns) * imax_ * float(np.max(np.abs(r0)))
        tame = eps_used is not None and _stiffness(h, eps_used) <= 3.0 and \
            float(np.max(np.abs(r1))) <= 100.0 * (1.0 + float(np.max(np.abs(r0)))) and \
            excursion <= 1e6 * (1.0 + float(np.max(np.abs(t0))))
        if err is not None and not tame:
            stats["hmc_reverse_moves_skipped_unstable"] += 1
        if err is not None and tame:
            stats["hmc_reverse_moves_checked"] += 1
            stiff = _stiffness(h, eps_used) ** max(1, ns)
            if err > 1e-6 * max(1.0, stiff):
                bounded = h.cfg["bounds"] is not None
                matrix = np.ndim(h.cfg["knobs"].get("inverse_mass")) == 2
                _viol(V, "A.reversible", "hmc: proposal is not reversible: %d leapfrog steps from (t=%r, r=%r) reach (t=%r, r=%r) but "
                      "starting there with the momentum negated ends %.3g (relative) away from the start"
                      % (ns, t0.tolist(), r0.tolist(), t1.tolist(), r1.tolist(), err),
                      sampler="hmc-bounded-matrix-mass" if (bounded and matrix) else "hmc")
                return None
        if acc:
            w = y.copy()
    return w


def _stiffness(h, eps):
    """Rough per-step error amplification of the leapfrog map, 1 + eps^2 |M^-1| |Hessian| / T."""
    tk = h.cfg["target"]
    s = np.array(tk.get("s", [1.0] * h.d), dtype=float)
    hess = 1.0 / float(np.min(s)) ** 2 if tk["kind"] in ("gauss", "truncgauss") else 25.0
    im = h.cfg["knobs"].get("inverse_mass")
    imax = float(np.max(np.abs(np.asarray(im, dtype=float)))) if im is not None else 1.0
    return 1.0 + 4.0 * eps * eps * imax * hess / h.T


def refine_ensemble(V, stats, h, ev, X, LX, X_after):
    """One iteration with max_attempts = 1: evaluation k is the single attempt of walker k."""
    a = float(h.cfg["knobs"].get("alpha", 2.0))
    d = h.d
    nw = X.shape[0]
    posts = [k for k, e in enumerate(ev) if e[1] == "post"]
    # which walker does each evaluation belong to?  one attempt per walker when max_attempts = 1,
    # otherwise the sampler's own per-walker attempt counts (diagnostic attribute) are used
    owners = None
    if len(posts) == nw and int(h.cfg["knobs"].get("max_attempts", 100)) == 1:
        owners = list(range(nw))
    else:
        tp = getattr(h.chain, "total_proposals", None)
        try:
            counts = [int(tp[i][-1]) for i in range(nw)]
            if sum(counts) == len(posts):
                owners = [i for i in range(nw) for _ in range(counts[i])]
        except Exception:  # noqa
            owners = None
    if owners is None:
        stats["warn_uninterpretable_ensemble"] += 1
        return None
    sa = math.sqrt(a)

    def G(z):
        return (math.sqrt(z) - 1.0 / sa) / (sa - 1.0 / sa)

    X = X.copy()
    LX = LX.copy()
    bounded = h.cfg["bounds"] is not None
    for n_ev, (i, k) in enumerate(zip(owners, posts)):
        y, val = ev[k][2], ev[k][3]
        if np.array_equal(y, X[i]):
            # the partner coincides with the walker (possible for integer-valued starts): the "move" is the
            # identity for every stretch factor, nothing to judge
            stats["ensemble_identity_moves_skipped"] += 1
            continue
        last_of_walker = n_ev == len(posts) - 1 or owners[n_ev + 1] != i
        acc = last_of_walker and np.array_equal(X_after[i], y) and not np.array_equal(X[i], y)
        if last_of_walker and not acc and not np.array_equal(X_after[i], X[i]):
            _viol(V, "A.proposal", "ensemble: walker %d ended at %r, which is neither its previous position nor its proposal" % (i, X_after[i].tolist()))
            return None
        if not last_of_walker:
            stats["probe_ensemble_retry_attempts"] += 1
        prev_uniforms = []
        for e in reversed(ev[:k]):
            if e[1] == "post":
                break
            if e[1] == "rng" and e[2] in ("random", "uniform") and _scalar(e[4]):
                prev_uniforms.append(float(e[4]))
        u_all = _uniform_after(ev, k)
        cands = []
        for j in range(nw):
            if j == i:
                continue
            dv = X[i] - X[j]
            den = float(dv @ dv)
            if den == 0:
                continue
            z = float((y - X[j]) @ dv) / den
            res = float(np.max(np.abs(X[j] + z * dv - y))) / (1.0 + float(np.max(np.abs(y))) + float(np.max(np.abs(dv))))
            # z is recovered from differences of stored positions: its rounding error is that of the positions
            # (half an ulp at their magnitude each) divided by the distance between the two walkers
            zerr = 8.0 * np.finfo(float).eps * (float(np.max(np.abs(y))) + float(np.max(np.abs(X[i]))) + float(np.max(np.abs(X[j])))) \
                * (1.0 + a) / math.sqrt(den)
            if res < 1e-9 and (1.0 / a) * (1 - 1e-9) - zerr <= z <= a * (1 + 1e-9) + zerr:
                cands.append((j, z, zerr))
        stats["attempts_judged"] += 1

        def zlaw(z, zerr):
            if zerr > 1e-3:
                # walkers closer together than the resolution of their coordinates allows: z is not recoverable
                stats["ensemble_zlaw_unresolvable"] += 1
                return True
            zc = min(max(z, 1.0 / a), a)
            return (not prev_uniforms) or any(min(abs(G(zc) - v), abs(G(zc) - (1 - v))) < 1e-7 + 2.0 * zerr for v in prev_uniforms)

        good_c = [(j, z, zerr) for j, z, zerr in cands if zlaw(z, zerr)]
        if not good_c:
            folded = False
            if bounded:
                lo, hi = np.array(h.cfg["bounds"][0], dtype=float), np.array(h.cfg["bounds"][1], dtype=float)
                for j in range(nw):
                    if j == i or folded:
                        continue
                    for v in prev_uniforms:
                        for vv in (v, 1 - v):
                            zz = (1.0 / sa + vv * (sa - 1.0 / sa)) ** 2
                            raw = X[j] + zz * (X[i] - X[j])
                            if ((raw < lo) | (raw > hi)).any():
                                fy = np.array([oracles.fold_exact(raw[m], lo[m], hi[m])[0] for m in range(d)])
                                if float(np.max(np.abs(fy - y))) <= 1e-9 * (1.0 + float(np.max(np.abs(raw)))):
                                    folded = True
            if folded:
                _viol(V, "A.reversible", "ensemble with bounds: the stretch proposal for walker %d at %r left the box and was folded "
                      "back to %r; a folded stretch move has no reverse move, so the z^(d-1) p(Y)/p(X) rule is not its "
                      "Metropolis-Hastings ratio" % (i, X[i].tolist(), y.tolist()), sampler="ensemble-bounded", oracle="A-reverse-move-folded")
                stats["known_folded_stretch"] += 1
                if acc:
                    X[i], LX[i] = y.copy(), val
                continue
            if cands:
                _viol(V, "A.proposal", "ensemble: walker %d (%r -> %r): stretch factor(s) %r do not follow g(z) ~ z^-1/2 on [1/a, a] "
                      "for the uniform(s) %r drawn for the move" % (i, X[i].tolist(), y.tolist(), [round(c_[1], 9) for c_ in cands][:3], prev_uniforms[:3]))
            else:
                _viol(V, "A.proposal", "ensemble: the proposal %r for walker %d (at %r) is not a stretch move X_j + z (X_i - X_j) about "
                      "any other walker with z in [1/a, a] (a=%g); walkers: %r" % (y.tolist(), i, X[i].tolist(), a, X.tolist()))
            return None
        ok_any = False
        why = ""
        if any(abs((d - 1) * math.log(zz_)) > 709.0 for _, zz_, _ in good_c):
            stats["probe_stretch_exponent_gt_709"] += 1
        if COLLECT is not None and len(good_c) == 1 and good_c[0][2] < 1e-6:
            la_ = (d - 1) * math.log(good_c[0][1]) + (val - LX[i])
            if not math.isnan(la_):
                COLLECT.append(("all", la_, bool(acc)))
        for j, z, zerr in good_c:
            la = (d - 1) * math.log(z) + (val - LX[i])
            good = True
            if math.isnan(la):
                pass
            elif la > TIE + (d - 1) * zerr / z:
                if not acc:
                    good = False
                    why = "log ratio %+.6g > 0 but rejected" % la
            elif u_all and not getattr(rctx.get(), "block_uniforms", False):
                q = math.exp(la) if la > -745 else 0.0
                if not any(abs(u - q) <= 1e-12 + (1e-9 + (d - 1) * zerr / z) * q or acc == (u <= q) for u in u_all):
                    good = False
                    why = "%s with uniform(s) %s, z^(d-1) p(Y)/p(X) = %.9g (z=%.6g, d=%d)" % (
                        "accepted" if acc else "rejected", ", ".join("%.9g" % u for u in u_all), q, z, d)
            if good:
                ok_any = True
                break
        if not ok_any:
            _viol(V, "A.decision", "ensemble: attempt on walker %d (%r -> %r): %s" % (i, X[i].tolist(), y.tolist(), why))
            return None
        if acc:
            X[i], LX[i] = y.copy(), val
    return X


def execute(sc):
    stats = collections.Counter()
    V = []
    cfg = sc["cfg"]
    c = rctx.new_run(cfg["seed"], faults=sc["faults"])
    seams.seed_global_streams(cfg["seed"])
    kind = cfg["kind"]
    with seams.Seams(clock=seams.FakeClock()):
        try:
            h = lc.Harnessed(cfg, "s0")
        except LibRaised as e:
            return dict(violations=[dict(invariant="op.raised", detail=str(e), key={})], stats={}, digest=digest(sc),
                        nontrivial=False, shape=kind, sim_seconds=0.0)
        if kind == "hmc":
            momentum_law(V, stats, h)
        sib = None
        if sc.get("sibling"):
            try:
                sib = lc.Harnessed(cfg, "x1", inputs=h.inputs, seed_group=(cfg["seed"] + 1) & 0x7FFFFFFF)
                stats["fault_second_sampler_built_from_the_same_input_objects"] += 1
            except LibRaised:
                sib = None
        rec = None
        if kind == "hmc" and hasattr(h.chain, "run_leapfrog"):
            rec = LeapfrogRecorder(h.chain)
            h.chain.run_leapfrog = rec
        if kind == "ensemble":
            X = np.array(h.inputs["start"], dtype=float)
            LX = np.array([h.target.logpdf(x) for x in X])
        else:
            S, _ = h.rows()
            w = S[-1].copy()
        ended = False
        twins = []
        for op in sc["ops"]:
            if V or ended:
                break
            if op[0] == "estimate_mass":
                # public re-tuning of the HMC mass from the samples so far; afterwards momenta, dynamics and
                # the kinetic energy in the accept rule must all use the NEW mass
                S_, _ = h.rows()
                ok_ = S_.shape[0] >= 2 * h.d + 6 and np.all(S_[1:].var(axis=0) > 0) and \
                    (h.d == 1 or op[1] or np.linalg.cond(np.cov(S_[1:].T)) < 1e6)
                if not ok_:
                    continue
                try:
                    lib_call("estimate_mass", h.chain.estimate_mass, burn=1, thin=1, diagonal=bool(op[1]))
                    im_new = np.asarray(h.chain.mass.inv_mass, dtype=float)
                except LibRaised as e:
                    stats["estimate_mass_failed_history_ended"] += 1
                    break
                except Exception:  # noqa - mass not introspectable: layer A cannot follow, B/C remain
                    stats["warn_uninterpretable_momentum"] += 1
                    break
                h.cfg = dict(h.cfg, knobs=dict(h.cfg["knobs"], inverse_mass=im_new.tolist() if im_new.ndim else float(im_new)))
                stats["probe_estimate_mass"] += 1
                momentum_law(V, stats, h)
                continue
            if op[0] == "restart":
                try:
                    old_, tw_ = lc.op_restart(h, "r%d" % len(twins), twin=True)
                except LibRaised:
                    stats["restart_failed_history_ended"] += 1  # C09's business
                    break
                sync_generators(h.chain, old_)
                twins.append(tw_)
                stats["fault_crash_restart"] += 1
                if rec is not None and hasattr(h.chain, "run_leapfrog"):
                    rec = LeapfrogRecorder(h.chain)
                    h.chain.run_leapfrog = rec
                continue
            if op[0] == "exchange":
                g = np.random.Generator(np.random.PCG64([op[1], 17]))
                pos = h.foreign_point(h.target.draw(g, h.T if cfg["target"]["kind"] != "banana" else 1.0))
                try:
                    lc.op_exchange(h, pos, h.target.logpdf(pos))
                except LibRaised as e:
                    _viol(V, "op.raised", str(e))
                    break
                w = np.array(pos, dtype=float)
                stats["fault_exchange_installs_foreign_point"] += 1
                continue
            for _ in range(op[1]):
                seq0 = c.seq
                pre = None
                if rec is not None and stats["steps_refined"] % 4 == 1:
                    import copy as _copy

                    try:
                        pre = _copy.deepcopy(h.chain)
                    except Exception:  # noqa - a chain that cannot be copied: no probe
                        pre = None
                try:
                    if kind == "ensemble":
                        lc.op_advance(h, 1)
                    else:
                        lc.op_step(h)
                except lc.StepExhausted:
                    stats["hmc_step_exhausted"] += 1
                    ended = True
                    break
                except rctx.Runaway:
                    stats["op_runaway_history_ended"] += 1
                    ended = True
                    break
                except LibRaised as e:
                    _viol(V, "op.raised", "%s: %s" % (kind, e))
                    break
                ev = _events(c, h.label, seq0)
                stats["steps_refined"] += 1
                twins[:] = [t_ for t_ in twins if lc.twin_step(h, t_)]
                if sib is not None:
                    try:
                        (lc.op_advance(sib, 1) if kind == "ensemble" else lc.op_step(sib))
                    except (lc.StepExhausted, rctx.Runaway, LibRaised):
                        sib = None
                if kind == "ensemble":
                    S, _ = h.rows()
                    X_after = S[-h.n_walkers:]
                    X = refine_ensemble(V, stats, h, ev, X, LX, X_after)
                    if X is None:
                        ended = True
                        break
                    if not np.array_equal(X, X_after):
                        _viol(V, "A.stored", "ensemble: stored walker positions differ from the accepted proposals")
                        break
                    LX = np.array([h.target.logpdf(x) for x in X])
                    continue
                if kind in ("gibbs", "pca"):
                    if kind == "pca" and cfg["bounds"] is not None and h.d > 1:
                        nw = None  # folded moves hide the direction geometry: layers B/C cover bounded PCA
                        stats["skipped_bounded_pca_geometry"] += 1
                        # ... but a proposal that was not brought back into the box is visible without any geometry: the
                        # Metropolis test would then be taken on the untruncated density
                        lo_, hi_ = np.asarray(cfg["bounds"][0], dtype=float), np.asarray(cfg["bounds"][1], dtype=float)
                        tol_ = 1e-9 * (np.abs(lo_) + np.abs(hi_) + (hi_ - lo_))
                        for e_ in ev:
                            if e_[1] == "post" and np.all(np.isfinite(e_[2])) and ((e_[2] < lo_ - tol_).any() or (e_[2] > hi_ + tol_).any()):
                                _viol(V, "A.proposal", "pca: with bounds %r the posterior was evaluated (and the Metropolis test taken) at the "
                                      "unreflected proposal %r" % ([lo_.tolist(), hi_.tolist()], e_[2].tolist()))
                                break
                        if V:
                            break
                        stats["bounded_pca_evaluations_inside_checked"] += 1
                    else:
                        nw = refine_coordinatewise(V, stats, h, ev, w, kind)
                elif kind == "metropolis":
                    nw = refine_metropolis(V, stats, h, ev, w)
                else:
                    nw = refine_hmc(V, stats, h, ev, w, rec, seq0) if rec is not None else None
                    if pre is not None and not V and rec is not None and rec.calls:
                        first = [cl for cl in rec.calls if cl[0] >= seq0]
                        if first:
                            reverse_step_probe(V, stats, h, pre, ev, first[0])
                S, _ = h.rows()
                if nw is not None and not V and not np.array_equal(S[-1], nw):
                    _viol(V, "A.stored", "%s: the stored sample %r is not the last accepted point %r" % (kind, S[-1].tolist(), nw.tolist()))
                    break
                w = S[-1].copy()
                if rec is not None:
                    del rec.calls[:]
                for log in c.rng_logs.values():
                    del log[:]
                for log in c.post_logs.values():
                    del log[:]
    for k2, v in c.stats.items():
        stats[k2] += v
    return dict(violations=V, stats=dict(stats), digest=digest(sc), nontrivial=stats["attempts_judged"] > 0,
                shape="%s/%s" % (kind, ",".join(o[0] for o in sc["ops"])), sim_seconds=0.0)


# ================================================================== Layers B and C (stat jobs)
def _mk_target(spec):
    return targets.make_target(spec, tag="s0")


def _first_attempt_state(kind, d, x0, posts, k_att):
    """State of the attempt-level Metropolis-Hastings chain after k_att attempts, inferred from
    the posterior-evaluation log of consecutive take_step calls.  posts = list of (step_index, theta)."""
    if kind in ("metropolis", "hmc") or (kind in ("gibbs", "pca") and d == 1):
        state = x0
        for n in range(min(k_att, len(posts))):
            last_of_step = (n == len(posts) - 1) or posts[n + 1][0] != posts[n][0]
            if last_of_step:
                state = posts[n][1]
        return state
    # coordinate-wise kernels, d > 1: only the first attempt is used
    y1 = posts[0][1]
    if len(posts) == 1:
        return y1
    y2 = posts[1][1]
    return y1 if y2[0] == y1[0] else x0


def _replicas_B(job):
    spec, kind, T = job["target"], job["kind"], float(job["T"])
    N, d, k_att = int(job["N"]), job["target"]["d"], int(job.get("k_att", 1))
    tg = _mk_target(spec)
    out = np.empty((N, d))
    c = rctx.new_run(job["seed"], record=False)
    C = build.classes()
    cfg = job.get("cfg", {})
    bounds = None
    if job.get("bounds") is not None:
        bounds = (np.array(job["bounds"][0], dtype=float), np.array(job["bounds"][1], dtype=float))
    log = []

    def mon(kindev, tag, th):
        if kindev == "post":
            log.append(th)

    c.monitors.append(mon)
    rng = np.random.Generator(np.random.PCG64(c.child_seed(11)))
    with seams.Seams(clock=seams.FakeClock()):
        for n in range(N):
            if kind == "ensemble":
                nw = int(cfg.get("n_walkers", d + 2))
                X0 = np.array([tg.draw(rng, T) for _ in range(nw)])
                try:
                    ch = C[kind](posterior=tg, starting_positions=X0.copy(), alpha=float(cfg.get("alpha", 2.0)), bounds=bounds,
                                 display_progress=False)
                except ValueError:
                    out[n] = X0[0]
                    continue
                ch.max_attempts = 1
                ch.advance(int(cfg.get("iterations", 1)))
                S = np.asarray(ch.get_sample(burn=0))
                out[n] = S[-nw + int(cfg.get("walker", 0))]
                continue
            x0 = tg.draw(rng, T)
            if kind == "hmc":
                im = cfg.get("inverse_mass")
                if im is not None:
                    im = np.array(im, dtype=float) if not np.isscalar(im) else float(im)
                ch = C[kind](posterior=tg, start=x0.copy(), grad=targets.GradOf(tg), epsilon=float(cfg.get("epsilon", 0.3)),
                             temperature=T, bounds=bounds, inverse_mass=im, display_progress=False)
                build._set(ch, "steps", int(cfg.get("steps", 6)))
                build._set(getattr(ch, "ES", None), "chk_int", 10 ** 9)
            else:
                kw = dict(bounds=bounds) if kind == "pca" else {}
                ch = C[kind](posterior=tg, start=x0.copy(), widths=np.full(d, float(cfg.get("width", 1.5))), temperature=T,
                             display_progress=False, **kw)
                for p in getattr(ch, "params", []):
                    build._set(p, "chk_int", 10 ** 9)
                    build._set(p, "max_tries", 10 ** 9)
                if cfg.get("limits") == "bounds":
                    for i in range(d):
                        ch.set_boundaries(i, (float(spec["lo"][i]), float(spec["hi"][i])))
                elif cfg.get("limits") == "nonneg":
                    for i in range(d):
                        ch.set_non_negative(i, True)
                elif cfg.get("limits") == "both":
                    for i in range(d):
                        ch.set_boundaries(i, (-1.0, float(spec["hi"][i])))
                        ch.set_non_negative(i, True)
            del log[:]
            posts = []
            step = 0
            try:
                while len(posts) < k_att:
                    ch.take_step()
                    posts.extend((step, th) for th in log)
                    del log[:]
                    step += 1
            except ValueError:
                out[n] = x0
                continue
            out[n] = _first_attempt_state(kind, d, x0, posts, k_att)
    return out, tg


def _uniformity(U, N):
    """20 equiprobable bins: exact binomial tail per bin and chi-square.  Returns (min_bin_p, chi2, chi2_p)."""
    k = 20
    cnt = np.histogram(np.clip(U, 0, 1), bins=np.linspace(0, 1, k + 1))[0]
    exp = N / k
    chi = float(((cnt - exp) ** 2 / exp).sum())
    lo = sps.binom.cdf(cnt, N, 1.0 / k)
    hi = sps.binom.sf(cnt - 1, N, 1.0 / k)
    pb = float(np.minimum(1.0, 2 * np.minimum(lo, hi)).min())
    return pb, chi, float(sps.chi2.sf(chi, k - 1))


def run_job(job):
    layer = job["layer"]
    stats = collections.Counter()
    V = []
    if layer == "B":
        X, tg = _replicas_B(job)
        N = X.shape[0]
        F = tg.functionals(X, float(job["T"]))
        ntests = max(1, int(job.get("ntests", 2000)))
        worst = None
        for name, U in F.items():
            pb, chi, pc = _uniformity(np.asarray(U), N)
            stats["functionals_tested"] += 1
            if worst is None or pc < worst[2]:
                worst = (name, chi, pc, pb)
            if pb < 1e-9 / ntests or pc < 1e-10 / ntests:
                _viol(V, "B.stationarity",
                      "%s (T=%g, target %r, %s): after %d attempt(s) from an exact draw of pi^(1/T) the functional '%s' of the state is "
                      "not distributed as under pi^(1/T): chi2_19 = %.1f (p = %.3g), smallest exact binomial bin tail %.3g, N = %d replicas"
                      % (job["kind"], job["T"], job["target"], job.get("cfg"), job.get("k_att", 1), name, chi, pc, pb, N),
                      value=chi * 10000.0 / N, sampler=job.get("tag", job["kind"]), layer="B")
                break
        stats["replicas"] += N
        stats["probe_B_worst_chi2_x10"] = int(10 * worst[1]) if worst else 0
        return dict(violations=V, stats=dict(stats), evaluations=N, digests=[digest(job)], nontrivial_ids=[digest(job)],
                    sample=dict(job=job, worst_functional=worst[0] if worst else None, chi2_19=worst[1] if worst else None))
    if layer == "C":
        return _run_C(job)
    if layer == "D":
        return _run_D(job)
    if layer == "A-big":
        # one layer-A history far beyond the generated sizes (hundreds of parameters and walkers)
        r = execute(dict(cfg=job["cfg"], ops=[["steps", int(job["steps"])]], faults=dict(tail_p=0.0, edge_u_p=0.0)))
        st_ = collections.Counter(r["stats"])
        st_["probe_ensemble_stretch_exponent_beyond_exp_range"] += st_.get("probe_stretch_exponent_gt_709", 0)
        return dict(violations=r["violations"], stats=dict(st_), evaluations=int(st_.get("attempts_judged", 0)), digests=[digest(job)],
                    nontrivial_ids=[digest(job)], sample=dict(job=dict(kind="ensemble", d=job["cfg"]["d"], walkers=job["cfg"]["n_walkers"])))
    raise ValueError(layer)


def _run_D(job):
    """Calibration of the decisions: over a long run of the real sampler the number of accepted attempts must equal
    the sum of their Metropolis-Hastings probabilities up to binomial noise - overall and inside every stratum
    defined by a feature of the PROPOSAL (HMC: trajectory longer / shorter than nominal).  Needs no knowledge of
    which random number a decision used; catches decisions that are coupled to the way the move was proposed."""
    global COLLECT
    COLLECT = []
    try:
        r = execute(dict(cfg=job["cfg"], ops=[["steps", int(job["steps"])]], faults=dict(tail_p=0.0, edge_u_p=0.0)))
        data = COLLECT
    finally:
        COLLECT = None
    V = [v for v in r["violations"]]
    stats = collections.Counter(r["stats"])
    strata = {}
    for f, la, acc in data:
        a = 1.0 if la >= 0 else math.exp(max(la, -745.0))
        for key in {f, "all"}:
            s = strata.setdefault(key, [0.0, 0.0, 0])
            s[0] += (1.0 if acc else 0.0) - a
            s[1] += a * (1.0 - a)
            s[2] += 1
    worst = None
    for key, (dev, var, n) in sorted(strata.items()):
        if var < 25.0:
            continue
        z = dev / math.sqrt(var)
        stats["calibration_strata_tested"] += 1
        if worst is None or abs(z) > abs(worst[1]):
            worst = (key, z, n)
        if abs(z) > 6.5 and not V:
            _viol(V, "D.calibration", "%s: among %d attempts (%s) the number accepted differs from the sum of their Metropolis-Hastings "
                  "probabilities by %+.1f, %.1f standard deviations: the decisions are not taken with the Metropolis-Hastings "
                  "probability of the proposed move" % (job["cfg"]["kind"], n, key, dev, z), sampler=job["cfg"]["kind"], layer="D")
    return dict(violations=V, stats=dict(stats), evaluations=len(data), digests=[digest(job)], nontrivial_ids=[digest(job)],
                sample=dict(job=dict(kind=job["cfg"]["kind"], steps=job["steps"]), worst_stratum=worst))


def _run_C(job):
    """R independent chains with default adaptation; variance ratio and mean offset of the
    returned samples against the target's exact moments."""
    stats = collections.Counter()
    V = []
    spec, kind, T = job["target"], job["kind"], float(job["T"])
    R, L, burn = int(job["R"]), int(job["L"]), int(job["burn"])
    tg = _mk_target(spec)
    d = spec["d"]
    mu, var = tg.moments(T)
    c = rctx.new_run(job["seed"], record=False)
    C = build.classes()
    cfg = job.get("cfg", {})
    rng = np.random.Generator(np.random.PCG64(c.child_seed(12)))
    vr, mo = [], []
    with seams.Seams(clock=seams.FakeClock()):
        for r in range(R):
            if kind == "ensemble":
                nw = int(cfg.get("n_walkers", 2 * d + 2))
                X0 = np.array([tg.draw(rng, T) for _ in range(nw)])
                ch = C[kind](posterior=tg, starting_positions=X0, display_progress=False)
                if "max_attempts" in cfg:
                    ch.max_attempts = int(cfg["max_attempts"])
                ch.advance(L // nw + burn // nw)
                S = np.asarray(ch.get_sample(burn=burn))
            else:
                x0 = tg.draw(rng, T)
                if kind == "hmc":
                    ch = C[kind](posterior=tg, start=x0, grad=targets.GradOf(tg), temperature=T, display_progress=False)
                    build._set(ch, "steps", int(cfg.get("steps", 10)))
                else:
                    ch = C[kind](posterior=tg, start=x0, widths=np.full(d, 1.0), temperature=T, display_progress=False)
                for _ in range(L + burn):
                    ch.take_step()
                S = np.asarray(ch.get_sample(burn=burn))
            vr.append(float(np.mean(S.var(axis=0) / var)))
            mo.append(float(np.mean((S.mean(axis=0) - mu) / np.sqrt(var))))
    vr, mo = np.array(vr), np.array(mo)
    ratio, se = float(vr.mean()), float(vr.std(ddof=1) / math.sqrt(R))
    moff, mse = float(mo.mean()), float(mo.std(ddof=1) / math.sqrt(R))
    stats["chains"] += R
    tag = job.get("tag", kind)
    if abs(ratio - 1) > 0.25 or abs(moff) > 0.25:
        _viol(V, "C.longrun.gross", "%s on %r at T=%g: variance of the returned samples / target variance = %.3f +- %.3f, mean offset "
              "%.3f sd (R=%d chains x %d steps)" % (tag, spec, T, ratio, se, moff, R, L), value=ratio, sampler=tag, layer="C")
    elif abs(ratio - 1) > 6 * se + 0.03 or abs(moff) > 6 * mse + 0.03:
        _viol(V, "C.longrun.fine", "%s on %r at T=%g: variance of the returned samples / target variance = %.4f +- %.4f (6 se), mean "
              "offset %.4f +- %.4f sd (R=%d chains x %d steps)" % (tag, spec, T, ratio, se, moff, mse, R, L),
              value=ratio, sampler=tag, layer="C")
    return dict(violations=V, stats=dict(stats), evaluations=R, digests=[digest(job)], nontrivial_ids=[digest(job)],
                sample=dict(job=job, variance_ratio=ratio, se=se, mean_offset=moff))


def stat_jobs(tier, seed):
    big = tier == "thorough"
    N = 200_000 if big else 40_000
    jobs = []
    g1 = dict(kind="gauss", d=1)
    g2 = dict(kind="gauss", d=2, s=[1.0, 3.0])
    cg = dict(kind="corrgauss", d=2)
    lap = dict(kind="laplace", d=2)
    moat = dict(kind="moat", d=1)
    box = dict(kind="truncgauss", d=2, lo=[-0.5, -2.0], hi=[1.5, 4.0], mu=[0.0, 0.0], s=[1.0, 3.0])
    lin = dict(kind="boxpower", d=1, lo=[0.0], hi=[1.0], p=1.0)
    B = []
    for kind in ("gibbs", "metropolis", "pca"):
        B += [dict(kind=kind, target=g1, T=1.0, k_att=3, cfg=dict(width=1.5)),
              dict(kind=kind, target=g2, T=4.0, k_att=1 if kind != "metropolis" else 3, cfg=dict(width=2.5)),
              dict(kind=kind, target=lap, T=2.0, k_att=1 if kind != "metropolis" else 2, cfg=dict(width=1.5)),
              dict(kind=kind, target=moat, T=1.0, k_att=3, cfg=dict(width=1.0))]
    gam1 = dict(kind="gamma", d=1, k=2.0)
    gam2 = dict(kind="gamma", d=2, k=3.0)
    pos = dict(kind="truncgauss", d=1, lo=[0.0], hi=[2.0], mu=[0.5], s=[1.0], strict=True)
    for kind in ("gibbs", "metropolis"):
        B += [dict(kind=kind, target=box, T=1.0, k_att=1 if kind == "gibbs" else 2, cfg=dict(width=2.0, limits="bounds"), tag=kind + "-boundaries"),
              dict(kind=kind, target=gam1, T=1.0, k_att=3, cfg=dict(width=2.0, limits="nonneg"), tag=kind + "-nonneg"),
              dict(kind=kind, target=gam2, T=2.0, k_att=1 if kind == "gibbs" else 2, cfg=dict(width=3.0, limits="nonneg"), tag=kind + "-nonneg"),
              dict(kind=kind, target=pos, T=1.0, k_att=3, cfg=dict(width=1.5, limits="both"), tag=kind + "-boundaries-nonneg")]
    B += [dict(kind="pca", target=box, T=1.0, k_att=1, cfg=dict(width=1.5), bounds=[box["lo"], box["hi"]]),
          dict(kind="pca", target=lin, T=2.0, k_att=3, cfg=dict(width=0.7), bounds=[[0.0], [1.0]])]
    Nh = N // 2
    B += [dict(kind="hmc", target=g2, T=1.0, k_att=3, cfg=dict(epsilon=0.5, steps=8), N=Nh),
          dict(kind="hmc", target=g2, T=4.0, k_att=3, cfg=dict(epsilon=0.5, steps=8, inverse_mass=[1.0, 9.0]), N=Nh),
          dict(kind="hmc", target=cg, T=1.0, k_att=2, cfg=dict(epsilon=0.4, steps=6, inverse_mass=[[1.0, 0.5], [0.5, 2.0]]), N=Nh),
          dict(kind="hmc", target=box, T=1.0, k_att=3, cfg=dict(epsilon=0.5, steps=8, inverse_mass=[1.0, 9.0]), bounds=[box["lo"], box["hi"]], N=Nh),
          dict(kind="hmc", target=box, T=1.0, k_att=2, cfg=dict(epsilon=0.5, steps=8, inverse_mass=[[1.0, 1.2], [1.2, 9.0]]),
               bounds=[box["lo"], box["hi"]], N=Nh, tag="hmc-bounded-matrix-mass"),
          dict(kind="hmc", target=lin, T=1.0, k_att=3, cfg=dict(epsilon=0.3, steps=5), bounds=[[0.0], [1.0]], N=Nh)]
    Ne = N // 2
    B += [dict(kind="ensemble", target=g1, T=1.0, cfg=dict(n_walkers=3, iterations=2, walker=0), N=Ne),
          dict(kind="ensemble", target=g2, T=1.0, cfg=dict(n_walkers=4, iterations=1, walker=3), N=Ne),
          dict(kind="ensemble", target=cg, T=1.0, cfg=dict(n_walkers=5, iterations=2, walker=1, alpha=3.0), N=Ne),
          dict(kind="ensemble", target=lin, T=1.0, cfg=dict(n_walkers=3, iterations=2, walker=0), bounds=[[0.0], [1.0]], N=Ne, tag="ensemble-bounded"),
          dict(kind="ensemble", target=box, T=1.0, cfg=dict(n_walkers=4, iterations=2, walker=0), bounds=[box["lo"], box["hi"]], N=Ne, tag="ensemble-bounded")]
    for i, b in enumerate(B):
        b.setdefault("N", N)
        b.update(layer="B", seed=(seed * 1000003 + i) & 0x7FFFFFFF, ntests=len(B) * 8)
        b.setdefault("tag", b["kind"])
        jobs.append(b)
    R, L = (64, 4000) if big else (24, 1500)
    Cj = [dict(kind="gibbs", target=g2, T=1.0), dict(kind="gibbs", target=g1, T=2.0), dict(kind="metropolis", target=g2, T=1.0),
          dict(kind="pca", target=cg, T=1.0), dict(kind="hmc", target=g2, T=1.0, cfg=dict(steps=10)),
          dict(kind="ensemble", target=g2, T=1.0, cfg=dict(n_walkers=6)),
          dict(kind="ensemble", target=g2, T=1.0, cfg=dict(n_walkers=6, max_attempts=1), tag="ensemble-single-attempt"),
          # thousands of accept/reject tests inside ONE advance() call (30 walkers x 400+ iterations)
          dict(kind="ensemble", target=g2, T=1.0, cfg=dict(n_walkers=30), tag="ensemble-many-walkers", L=8 * L, R=max(12, R // 2))]
    for i, cj in enumerate(Cj):
        cj.update(layer="C", seed=(seed * 1000033 + i) & 0x7FFFFFFF, burn=300)
        cj.setdefault("R", R)
        cj.setdefault("L", L)
        cj.setdefault("tag", cj["kind"])
        jobs.append(cj)
    knobs = dict(chk_int=100, max_tries=50, dir_update_interval=100, steps=6, es_chk_int=15, alpha=2.0)
    for i, (kind, tg, extra) in enumerate([("hmc", g2, {}), ("hmc", cg, dict(T=2.0)), ("gibbs", lap, {}), ("metropolis", g2, {}),
                                           ("pca", cg, {}), ("ensemble", g2, dict(n_walkers=6))]):
        d_ = tg["d"]
        cfg = dict(kind=kind, d=d_, T=float(extra.get("T", 1.0)), seed=(seed * 1000211 + i) & 0x7FFFFFFF, display=False, target=tg,
                   bounds=None, widths=[1.0] * d_, epsilon=0.2, knobs=dict(knobs, finite_diff=False))
        if kind == "ensemble":
            cfg["n_walkers"] = extra["n_walkers"]
            cfg["knobs"]["max_attempts"] = 100
        jobs.append(dict(layer="D", cfg=cfg, steps=(6000 if big else 2000) // (extra.get("n_walkers", 1)), seed=cfg["seed"], tag=kind + "-calibration"))
    # hundreds of parameters, a wide stretch interval and heavy tails: (d-1) log z beyond +-709 while the ratio is moderate
    dbig = 200
    jobs.append(dict(layer="A-big", steps=6 if not big else 20, seed=(seed * 1000303) & 0x7FFFFFFF, tag="ensemble-200-parameters",
                     cfg=dict(kind="ensemble", d=dbig, T=1.0, seed=(seed * 1000303) & 0x7FFFFFFF, display=False, target=dict(kind="cauchy", d=dbig),
                              bounds=None, widths=[1.0] * dbig, epsilon=0.2, n_walkers=dbig + 12,
                              knobs=dict(knobs, alpha=100.0, max_attempts=1, finite_diff=False))))
    return jobs
    return jobs


def describe():
    return dict(
        rule=("Layer A: Hypothesis-generated histories of every sampler class (d<=3, T in {1,2,5}, bounds, -inf moats, exchanges, "
              "tail-draw and edge-uniform injection); every step's recorded draws and posterior evaluations are parsed into attempts "
              "and each attempt's accept/reject outcome is compared with the Metropolis-Hastings probability of the proposed move "
              "(HMC: energies from the recorded trajectory end points plus reverse-trajectory replay; ensemble: stretch geometry, "
              "z-law and z^(d-1) factor). Layer B: 25 configurations x 8k-200k independent replicas started from exact draws of "
              "pi^(1/T); the state after 1-3 attempts is tested for uniformity of its probability-integral transforms (exact "
              "binomial bin tails and chi-square, p < 1e-9 after Bonferroni). Layer C: 24-64 long chains per configuration, variance "
              "ratio and mean offset of the returned samples. Non-trivial = at least one attempt judged (A) / every B and C job; "
              "distinct = distinct scenario or job digest."),
        real_vs_stub=dict(real=["take_step / advance of GibbsChain, MetropolisChain, PcaChain, HamiltonianChain (run_leapfrog, mass), "
                                "EnsembleSampler; tempering_process update path"],
                          stub=["entropy behind default_rng (recording PCG64 proxies with fault injection)", "time.time"]),
        assumptions=["harness targets have exact samplers and CDFs for pi^(1/T)",
                     "a decision is judged only when the uniform drawn for it is identifiable in the recorded history (otherwise "
                     "counted as uninterpretable; layers B and C do not depend on the history format)",
                     "chi-square p-values use the asymptotic law with expected bin counts >= 400"],
    )
