"""Regenerates MANIFEST.json from the table below (kept in one place so it stays valid)."""
import json, os

HERE = os.path.dirname(os.path.abspath(__file__))

NA = {
 "C02": "GP posterior mean/covariance equals the closed form: a deterministic function of (data, hyper-parameters, query); no schedule, clock, fault, persisted state or operation history for a simulator to own.",
 "C05": "Likelihood classes are the named normalised densities: closed-form functions of (data, sigma, model output); pure input->output, nothing to schedule or fault.",
 "C06": "Priors normalised / sample from themselves / compose by index: pure functions plus a stateless transform of one random draw; no history, interleaving or fault dimension.",
 "C07": "Leapfrog reversibility / volume / energy scaling / finite-difference gradient: a deterministic map of (t, r, n, eps); not a simulation target (its reversibility and volume clauses are exercised only as sub-oracles of C01).",
 "C10": "Covariance kernels PSD, builder equals pairwise evaluation, gradients exact: pure functions of (points, hyper-parameters).",
 "C11": "Marginal / LOO likelihood values and gradients, optimiser result inside bounds: pure functions; the optional Pool and random restarts carry no stated property.",
 "C12": "GaussianKDE is a faithful normalised density: pure function of (sample, x).",
 "C13": "sample_hdi returns the shortest interval: pure function of (sample, fraction).",
 "C16": "GP derivative predictions: pure function of (data, hyper-parameters, query).",
 "C17": "Linear-Gaussian inversion equals the closed form: pure function.",
 "C19": "Density-estimator intervals and moments self-consistent: pure functions (deterministic optimisers and quadratures).",
 "C20": "Conditional approximation / piecewise-linear sampling: pure function of (posterior, bounds, point) and a stateless transform of uniform draws.",
}

CHECKS = {
 "C18": dict(
   engine="E1-style optimiser history machine",
   technique="deterministic simulation (scoped): model-based checking of GpOptimiser propose/add histories under a seeded global random stream, with outlier / near-duplicate evaluation faults; formula clauses only spot-checked at reached states",
   text=("SCOPED: decides the history clauses of C18 - every proposal inside the closed search box, an added evaluation is part of the data "
         "the next regressor is fitted to and updates the incumbent, every array passed by the caller stays byte- and shape-identical - for "
         "generated sequences of propose / add (proposal, seeded point, near-duplicate, outlier) calls over d in {1,2,3}, 3-40 evaluations held, "
         "EI/UCB/max-variance/default acquisition, bfgs/differential evolution, 1-3 processes, with/without y_err, several input array forms, a second "
         "optimiser interleaved, kappa changed on the live acquisition, read-only likelihood queries on the live regressor, hyper-parameters set on the live regressor or given by the caller as array / list / tuple, evaluations lying exactly on the bounds; every regressor consulted while a proposal is produced (also the copies unpickled in simulated pool workers) must hold the current data; the hyper-parameter "
         "limits of each refit must be those estimated from the current data. The formula clauses (EI both branches, UCB, max "
         "variance, value-and-gradient form) are pure functions of the regressor state; they are attached only as spot oracles at the states "
         "the histories reach (EI vs quadrature in log space, gradients vs two-step central differences). No coverage 'for all predictive "
         "means and variances' is claimed."),
   design_ref="DESIGN.md 3.8",
   note="Trusted: quadrature reference for EI (|Z|<=30); finite differences only where two step sizes agree to 1e-4. multiprocessing.Pool is replaced by a synchronous pickling stand-in (n_processes in {1,2,3}); the pool carries no scheduling clause in C18."),
 "C01": dict(
   engine="E1 history refinement + E3 replica ensembles",
   technique="deterministic simulation: recorded RNG/posterior-call histories of seeded runs refined attempt by attempt against the Metropolis-Hastings rule (with tail-draw, edge-uniform, -inf moat and exchange faults); exact-null stationarity tests over seeded replica ensembles started from exact draws; long-run moment check",
   text=("Layer A decides, for every attempt of every generated history, that the accept/reject outcome equals u < MH probability of the "
         "move actually proposed (Gibbs/Metropolis/PCA: tempered density ratio; HMC: Hamiltonian difference from recorded trajectory end "
         "points plus immediate reverse-trajectory replay; ensemble: stretch geometry about the partner, z-law, z^(d-1) factor, incl. "
         "retries). Layer B: 30 sampler/target/temperature configurations x 8k-200k replicas started from exact draws of pi^(1/T); the "
         "state after 1-3 attempts must have uniform probability-integral transforms (exact binomial + chi-square at p<1e-9 after "
         "Bonferroni). Layer C: variance ratio / mean offset of long chains, gross threshold 0.25, fine 6 se + 0.03. Layer D: calibration of "
         "the decisions over long runs (accepted minus sum of MH probabilities per proposal stratum, alarm at 6.5 sd) - needs no knowledge of "
         "which uniform a decision used (uniforms drawn in blocks leave layer A only the uphill rule). A-big: layer A once on 200 parameters / "
         "212 walkers. Histories include exchanges, mass re-estimation, save/load with a second restored twin stepping in between, and a second sampler built "
         "from the same input objects stepping in between; HMC reversibility is also probed through the public API only (a copy is handed the "
         "proposed point by the worker loop and drawn the negated end momentum: its proposal must be the start point). Known "
         "findings F1 (retry-until-accept), F2 (reflected stretch), F4 (bounded HMC with matrix mass) are reported as KNOWN-FINDING."),
   design_ref="DESIGN.md 3.1",
   note="Trusted: harness targets (exact samplers/CDFs of pi^(1/T)); a decision is judged only when its uniform is identifiable in the history (else counted uninterpretable, layers B/C remain); statistical layers bound, not exclude, distributional error."),
 "C04": dict(
   engine="E1 lifecycle with evaluation monitor",
   technique="deterministic simulation: every argument reaching the wrapped posterior/gradient and every stored sample is monitored against a model of the limits in force, under seeded histories of limit-setting calls and steps with tail-draw injection and huge proposal widths; exact rational fold as reference",
   text=("Model = per-parameter limits in force, updated by the generated set_boundaries / remove / set_non_negative calls or fixed "
         "by constructor bounds. Oracles: every evaluated point and stored sample inside the closed limits (4 ulp at limit scale); "
         "Gibbs proposals equal the exact rational fold of the recorded raw draw; Bounds.reflect / reflect_momenta equal the exact "
         "fold incl. multi-wrap overshoots, identity inside, momentum factor -1 exactly for odd reflection counts; a bounded "
         "trajectory run forward, negated and run again returns to its start (diagonal mass). Histories include save/load, rejected limit "
         "calls, the caller re-filling its start array, starts outside the bounds (refused by the constructor or else monitored), and constructor "
         "arguments passed positionally / as lists / float32 / read-only / non-contiguous / Fortran-ordered arrays."),
   design_ref="DESIGN.md 3.3",
   note="Trusted: limits are only set where they contain the parameter's current value; reversibility is only demanded for scalar/vector mass (with a matrix mass component flips do not reverse the trajectory - see DESIGN.md, C01 finding)."),
 "C09": dict(
   engine="E1 lifecycle with crash-restart op",
   technique="deterministic simulation with crash/restart injection: a shadow sampler is saved to a real .npz, dropped and reloaded at generated points and must stay bit-identical (read-outs and continuation) to a primary that never was; Hypothesis-generated histories with shrinking",
   text=("Crash-restart is a generated operation placed before any step, around the first adaptation / direction update (check "
         "intervals randomised 2..100), after many steps and twice in a row. After every op all public read-outs of the restarted "
         "sampler equal the never-saved one bit for bit (samples, log-probs, lengths, bounds, mode, burn-in estimate); continuation "
         "is compared sample for sample, so any tuning state lost by save/load surfaces as a divergence; every number under the attribute "
         "names the samplers themselves save (REPORTED_STATE) is compared original vs reloaded after every op; plotting / interval / "
         "marginal calls that work on the original must work on the reloaded object. Faults: tail draws, the posterior raising in the "
         "middle of an advance (error, StopIteration or KeyboardInterrupt; both samplers live through it, save right after), argument "
         "representations (float32 widths / starts, lists, positional). Known finding F5 is reported as KNOWN-FINDING."),
   design_ref="DESIGN.md 3.5",
   note="Trusted: generators are matched between original and reloaded object by attribute path; torn .npz writes are not injected."),
 "C15": dict(
   engine="E1 lifecycle + E2 pool simulation + simulated clock",
   technique="deterministic simulation: advance/take_step histories; real ChainPool on a simulated multiprocessing.Pool under seeded schedules (worker starvation/reuse, stalls, speeds) compared with serial copies; run_for on a simulated clock with slow steps, stalls and forward clock jumps; ParallelTempering.run_for inside the process simulation",
   text=("Invariants: chain_length grows by exactly m (m x walkers) and equals the number of stored samples and log-probs after "
         "every op; every chain returned by ChainPool.advance is bit-identical (state digest incl. generator positions) to a "
         "deep copy advanced serially; run_for never reads the clock more than 1000 times without an evaluation before its "
         "deadline, does not return before the budget is used up, overshoots by at most about one batch, for 0.2 ms to 10 min "
         "per evaluation; ParallelTempering.advance / run_for inside the process simulation (cycle arithmetic, progress watch); "
         "histories include save/load, runs of thousands of steps, advances interrupted by a raising posterior (own exception type and "
         "StopIteration: an advance that returns normally added exactly m), positional run_for calls, budgets of days, pools built from "
         "shared input objects and larger than the simulated core count, the mass of pooled HMC chains re-estimated between two pooled advances; coarse clocks (readings that stay equal for 1 ms / 15.6 ms / 1 s) in "
         "timed runs and plain advances, forward clock jumps also under ParallelTempering.run_for. An evaluation budget per operation turns a non-terminating step "
         "into a reported violation."),
   design_ref="DESIGN.md 3.7",
   note="Trusted: SimPool implements Pool.map (pickled jobs/results, FIFO queue, results in input order); progress/overshoot thresholds as stated in the evidence assumptions. Known finding F3 (proposal width / HMC step size overflow on flat posteriors) is reported as KNOWN-FINDING."),
 "C03": dict(
   engine="E1 lifecycle + kernel interleaving",
   technique="deterministic simulation: seeded operation histories on real samplers with recording RNG proxies, tail-draw / edge-uniform / exchange faults; groups built from shared input arrays interleaved at every posterior call by the seeded scheduler and compared with solo re-runs",
   text=("After every operation of every generated history the stored log-probability of each new row is recomputed from the "
         "pure target (probs[k] == posterior(sample[k])/T), mode() must be a stored row with maximal stored value, every input "
         "array must be byte-identical to its snapshot, and each sampler of an interleaved group must reproduce its solo "
         "trajectory; read-only / diagnostic / plotting calls must leave the recorded chain and the generators unchanged. Histories include "
         "exchanges (also under the real ParallelTempering), save/load, the caller overwriting its start array, advances interrupted by a "
         "raising posterior (error, StopIteration or KeyboardInterrupt), limits set / changed / cleared on a live chain (also away from its "
         "current value), argument representations (positional, float32, list, read-only, non-contiguous, Fortran-ordered starts, numpy integer "
         "counts), pairs handed out by get_interval, an exchange handing a bounded chain a point outside its box, integer-typed and zero-probability starts, 5-25 parameters, runs of thousands of steps. Exploration by seeded "
         "search with shrinking and replay; evidence, not proof."),
   design_ref="DESIGN.md 3.2",
   note="Trusted: harness targets are pure functions; interleaving is at posterior-call granularity (the samplers are synchronous objects, there is no finer pre-emption point that touches shared state)."),
 "C14": dict(
   engine="E1 lifecycle",
   technique="deterministic simulation: model-based checking of read-outs against a vector-of-rows reference after every operation of seeded histories that include exchanges and crash-restarts (save -> drop -> load)",
   text=("Reference model = rows read at burn=0/thin=1. After each op seeded (burn, thin, fraction, count) queries are compared "
         "with numpy slicing of the model: contents, shapes (incl. 0 and 1 retained rows), row alignment, marginal sample "
         "multiset (and the values the final fit of a unimodal estimate used, incl. one > 8000-value case), and for get_interval membership "
         "(with multiplicity) of (row, log-prob) pairs in the top fraction, count and 2-D shape; entries read out earlier must stay what "
         "they were when the chain grows (an exchange replaces the last entry only); read-outs and diagnostics leave the chain unchanged; "
         "chains of more than 4096 rows, burn up to 2047, thin up to 333; numpy integer scalars as burn / thin / count / index; advances "
         "interrupted by a raising posterior before the read-out."),
   design_ref="DESIGN.md 3.6",
   note="Trusted: the size of the 'top fraction' is n - int(n(1-f)) with one row of slack; with a sample count either the caller's thin or max(n_burned//count,1) is accepted."),
 "C08": dict(
   engine="E2 process simulation",
   technique="deterministic simulation: real ParallelTempering + tempering_process on simulated Process/Pipe/Event under a seeded discrete-event scheduler with latency, stall, speed and pipe-capacity faults; Hypothesis-generated op sequences with shrinking",
   text=("Seeded search over op sequences x schedules x fault mixes of the real parallel-tempering code on a simulated "
         "multiprocessing layer. Invariants: pair disjointness, exchange rule replayed from recorded draws, hand-over / "
         "re-tempering / untouched checks from return_chains() snapshots, provenance of every row added by advance(), "
         "digest equality of the returned chains across schedules, equal advancement, no deadlock, bounded shutdown; 1-10 chains, "
         "unsorted ladders, chains starting at log-density -inf, steep targets (exchange exponents in the thousands), start points sharing "
         "one coordinate, repeated temperatures, single commands of 501-1501 steps, the caller mutating the chain list it passed, fewer simulated cores than chains, "
         "coarse clocks and forward wall-clock jumps during timed runs, conservation stat jobs. "
         "Sampling, not enumeration: a clean batch is evidence, not proof."),
   design_ref="DESIGN.md 3.4",
   note="Trusted: simkit kernel/transport implement the documented multiprocessing contract (FIFO per pipe, pickled payloads, blocking recv, timed poll, join); worker crashes and broken pipes are not injected."),
}

def build():
    checks = []
    for pid in sorted(CHECKS):
        c = CHECKS[pid]
        checks.append(dict(
            property_id=pid,
            quick_cmd="./check %s --tier quick" % pid,
            thorough_cmd="./check %s --tier thorough" % pid,
            evidence_file="/verif/evidence/%s.json" % pid,
            replay_cmd_template="./check %s --replay {path}" % pid,
            engine=c["engine"],
            level_claimed=dict(category="exploration", text=c["text"], design_ref=c["design_ref"]),
            level_note=c["note"],
            technique=c["technique"],
        ))
    m = dict(
        version=1,
        setup_cmd="/venv/bin/python -c 'import hypothesis, numpy, scipy, matplotlib' || /venv/bin/pip install --no-index --find-links /opt/veriftools/wheels hypothesis",
        hooks=dict(guard="INFERENCE_TOOLS_VERIF",
                   enable="no source hook exists: every seam is a module-level name or instance attribute replaced at run time by simkit.seams; ./check exports INFERENCE_TOOLS_VERIF=1 for form only",
                   baseline_off_cmd="cd /repo && /venv/bin/python -m pytest -ra -q -p no:cacheprovider --timeout=900 --continue-on-collection-errors",
                   source_commits=[], add_only=True),
        engines=[
            dict(name="simkit", path="/verif/simkit", serves_properties=sorted(CHECKS),
                 kind_free_text="deterministic discrete-event simulator (baton-passing threads, simulated multiprocessing transport, recording RNG proxies, fake clock), Hypothesis as seeded scenario generator/shrinker, replay files"),
        ],
        checks=checks,
        notes="Technique family: deterministic simulation with fault injection. See DESIGN.md. Known findings (F1-F5) and the list of repaired defects are in /verif/known_findings.json. Self-tests: selftest/determinism.py, selftest/mutants.py (104 mutants / refactors), selftest/seeded.py (104 independently written breaking changes under seeded/).",
        not_applicable=[dict(property_id=k, reason=v) for k, v in sorted(NA.items())],
    )
    with open(os.path.join(HERE, "MANIFEST.json"), "w") as f:
        json.dump(m, f, indent=1)
    return m

if __name__ == "__main__":
    build()
    print("MANIFEST.json written")
