"""Deterministic discrete-event kernel: baton-passing real threads on a simulated clock.

Each simulated process is a real Python thread parked on a private semaphore; exactly
one thread holds the baton.  *Who runs next* is decided only here, from a PRNG seeded
by the scenario, so one seed is one exactly repeatable execution.  See DESIGN.md 2.2.
"""
import pickle
import math
import random
import threading

import numpy as np


import ctypes as _ct


def _make_peekers():
    """Cheap fingerprints of the two process-global Mersenne Twisters (position + a few
    key words), validated against the public state API; fall back to full copies."""
    try:
        bg = np.random.mtrand._rand._bit_generator
        arr = (_ct.c_uint32 * 626).from_address(bg.ctypes.state_address)
        st = bg.state["state"]
        assert int(arr[624]) == int(st["pos"]) and int(arr[0]) == int(st["key"][0])

        def np_peek():
            return (arr[624], arr[0], arr[1], arr[311], arr[623])
    except Exception:  # pragma: no cover
        def np_peek():
            s = np.random.get_state()
            return (s[2], int(s[1][0]), int(s[1][1]), int(s[1][311]), int(s[1][623]))
    try:
        inst = random._inst
        base = id(inst) + 16
        idx = _ct.c_int.from_address(base)
        words = (_ct.c_uint32 * 624).from_address(base + 4)
        g = inst.getstate()[1]
        assert idx.value == g[-1] and words[0] == g[0] and words[623] == g[623]

        def py_peek():
            return (idx.value, words[0], words[1], words[311], words[623])
    except Exception:  # pragma: no cover
        def py_peek():
            g = random.getstate()[1]
            return (g[-1], g[0], g[1], g[311], g[623])
    return np_peek, py_peek


_np_peek, _py_peek = _make_peekers()


class SimAbort(BaseException):
    """Raised inside parked tasks when a run is torn down (unwinds library code)."""


class Deadlock(Exception):
    """No runnable task and no pending timer."""


class Overdue(Exception):
    """A bounded-time operation did not finish by its simulated-time deadline."""


class StepCap(Exception):
    """Run exceeded its yield-point budget (reported as a liveness problem)."""


class _Baton:
    """Binary hand-over signal (a bare lock is several times cheaper than threading.Semaphore;
    baton passing guarantees release() is never called twice without an acquire() in between)."""

    __slots__ = ("_l",)

    def __init__(self):
        self._l = threading.Lock()
        self._l.acquire()

    def acquire(self):
        self._l.acquire()

    def release(self):
        self._l.release()


class Task:
    def __init__(self, sim, name, fn, args):
        self.sim, self.name, self.fn, self.args = sim, name, fn, args
        self.sem = _Baton()
        self.wake = None  # sim time at which runnable (None => blocked)
        self.done = False
        self.exc = None
        self.thread = None
        self.waiters = []
        self.np_state = None  # private legacy numpy.random state (per "process")
        self.py_state = None  # private random-module state
        self.blocked_on = None

    def _run(self):
        self.sem.acquire()
        sim = self.sim
        try:
            if sim.aborting:
                raise SimAbort()
            sim._enter(self)
            self.fn(*self.args)
        except SimAbort:
            pass
        except BaseException as e:  # noqa - recorded, reported by the check
            self.exc = e
            sim.log(("task_exception", self.name, type(e).__name__))
        finally:
            self.done = True
            for w in self.waiters:
                if w.wake is None:
                    w.wake = sim.now
            sim.log(("exit", self.name))
            sim._handoff(self, final=True)


DEFAULT_CFG = dict(
    lat=(1e-5, 2e-3),  # message latency range (s)
    op=(1e-6, 1e-5),  # cost of a syscall-like operation
    start=(1e-4, 5e-2),  # process start-up delay
    speed_spread=4.0,  # per-process speed factor in [1, speed_spread]
    stall_p=0.02,  # probability of an injected stall at a yield point
    stall=(0.05, 1.0),  # stall duration range
    long_lat_p=0.0,  # probability that a message is delayed > poll time-out
    long_lat=(0.06, 0.5),
    pipe_cap=None,  # bytes in flight before a sender blocks (None = unbounded)
    canonical=False,  # zero jitter, FIFO tie-break, no faults
    clock_res=0.0,  # fault "coarse clock": time() only changes every clock_res seconds (two readings can be equal)
    clock_jumps=None,  # fault "forward clock jump": list of [reading number, seconds]
    max_yields=2_000_000,
)


class Sim:
    EPOCH = 1.7e9

    def __init__(self, seed, cfg=None):
        self.rng = random.Random(seed)
        self.cfg = dict(DEFAULT_CFG)
        if cfg:
            self.cfg.update(cfg)
        if self.cfg["canonical"]:
            self.cfg.update(stall_p=0.0, long_lat_p=0.0, speed_spread=1.0)
        self.now = 0.0
        self.tasks = []
        self.aborting = False
        self.deadlocked = False
        self.events = []
        self.keep_events = True
        self.nyields = 0
        self.stats = dict(switches=0, stalls=0, poll_timeouts=0, msgs=0, long_lat=0,
                          send_blocked=0, clock_reads=0, coarse_equal=0, clock_jumps=0)
        self._shown = None
        self._mark_at = int(0.8 * self.cfg["max_yields"])
        self.mark_fn = None
        self.mark_value = None
        self.wall_offset = 0.0
        if self.cfg.get("clock_jumps"):
            self.cfg["clock_jumps"] = sorted([int(a), float(b)] for a, b in self.cfg["clock_jumps"])
        self.main = Task(self, "main", None, ())
        self.main.thread = threading.current_thread()
        self.main.wake = 0.0
        self.tasks.append(self.main)
        self.current = self.main
        self.speed = {}
        self._init_global_rng()
        self._seq = 0
        self.on_yield = None  # optional callback(sim) at every yield (invariants)
        self.watchdog = None  # simulated-time deadline for the op the main task is in
        self.overdue = False

    # ---- logging (never draws from a PRNG, never reads a real clock)
    def log(self, ev):
        if self.keep_events:
            self.events.append((round(self.now, 9),) + tuple(ev))

    def u(self, lo_hi):
        lo, hi = lo_hi
        if self.cfg["canonical"]:
            return lo
        return lo + (hi - lo) * self.rng.random()

    # ---- per-"process" global RNG state emulation (cheap: change detection by peeking
    #      at the Mersenne-Twister position / first key words; full copies only on change)
    def _init_global_rng(self):
        st = np.random.get_state()
        ps = random.getstate()
        self.main.np_state, self.main.py_state = st, ps
        self._np_loaded, self._np_key = st, _np_peek()
        self._py_loaded, self._py_key = ps, _py_peek()

    def _leave(self, t):
        k = _np_peek()
        if k != self._np_key:
            t.np_state = np.random.get_state()
            self._np_loaded, self._np_key = t.np_state, k
        k = _py_peek()
        if k != self._py_key:
            t.py_state = random.getstate()
            self._py_loaded, self._py_key = t.py_state, k

    def _enter(self, t):
        if t.np_state is not self._np_loaded:
            np.random.set_state(t.np_state)
            self._np_loaded, self._np_key = t.np_state, _np_peek()
        if t.py_state is not self._py_loaded:
            random.setstate(t.py_state)
            self._py_loaded, self._py_key = t.py_state, _py_peek()

    # ---- scheduling core
    def _pick(self):
        ready = [t for t in self.tasks if not t.done and t.wake is not None]
        if not ready:
            return None
        m = min(t.wake for t in ready)
        cands = [t for t in ready if t.wake == m]
        if len(cands) == 1 or self.cfg["canonical"]:
            return cands[0]
        return cands[self.rng.randrange(len(cands))]

    def _handoff(self, me, final=False):
        nxt = self._pick()
        self.stats["switches"] += 1
        if (self.watchdog is not None and nxt is not None and nxt.wake is not None
                and max(self.now, nxt.wake) > self.watchdog and not self.main.done):
            self.watchdog = None
            self.overdue = True
            nxt = self.main
            self.main.wake = self.now
        if nxt is None:
            self.deadlocked = True
            nxt = self.main
            if nxt.done or nxt is me and final:
                return
        if nxt.wake is not None and nxt.wake > self.now:
            self.now = nxt.wake
        self.current = nxt
        if nxt is me:
            if self.deadlocked and me is self.main:
                self.deadlocked = False
                raise Deadlock(self._deadlock_msg())
            if self.overdue and me is self.main:
                self.overdue = False
                raise Overdue("t=%.6f" % self.now)
            return
        if not final:
            self._leave(me)
        nxt.sem.release()
        if not final:
            me.sem.acquire()
            self._enter(me)
            if self.aborting and me is not self.main:
                raise SimAbort()
            if self.deadlocked and me is self.main:
                self.deadlocked = False
                raise Deadlock(self._deadlock_msg())
            if self.overdue and me is self.main:
                self.overdue = False
                raise Overdue("t=%.6f" % self.now)

    def _deadlock_msg(self):
        blocked = [(t.name, t.blocked_on) for t in self.tasks if not t.done]
        return "no runnable task at t=%.6f; live tasks: %r" % (self.now, blocked)

    def pause(self, dt, stallable=True):
        """Current task consumes dt of simulated time (a yield point)."""
        me = self.current
        self.nyields += 1
        if self.nyields == self._mark_at and self.mark_fn is not None:
            self.mark_value = self.mark_fn()  # (progress probe: lets a check tell "slow but working" from "hung")
        if self.nyields > self.cfg["max_yields"]:
            raise StepCap("more than %d yield points" % self.cfg["max_yields"])
        if stallable and self.cfg["stall_p"] > 0 and self.rng.random() < self.cfg["stall_p"]:
            dt += self.u(self.cfg["stall"])
            self.stats["stalls"] += 1
            self.log(("stall", me.name))
        me.wake = self.now + dt * self.speed.get(me.name, 1.0)
        if self.on_yield is not None:
            self.on_yield(self)
        self._handoff(me)

    def block(self, why=None):
        me = self.current
        me.wake = None
        me.blocked_on = why
        self._handoff(me)
        me.blocked_on = None

    def wait_until(self, t):
        me = self.current
        me.wake = max(t, self.now)
        self._handoff(me)

    def spawn(self, name, fn, args):
        t = Task(self, name, fn, args)
        self._leave(self.current)  # refresh the parent's copies; the child inherits them (fork)
        t.np_state = self.current.np_state
        t.py_state = self.current.py_state
        t.thread = threading.Thread(target=t._run, daemon=True, name="sim-" + name)
        t.thread.start()
        self.tasks.append(t)
        return t

    def shutdown_all(self):
        """Tear the run down: every parked task raises SimAbort at its yield point."""
        self.aborting = True
        self.on_yield = None
        while True:
            live = [t for t in self.tasks if t is not self.main and not t.done]
            if not live:
                break
            t = live[0]
            t.wake = self.now
            self.current = t
            t.sem.release()
            self.main.sem.acquire()
        for t in self.tasks:
            if t is not self.main and t.thread is not None:
                t.thread.join(timeout=5)

    # ---- clock
    def time(self):
        self.stats["clock_reads"] += 1
        self.pause(1e-6 if self.cfg["canonical"] else self.u(self.cfg["op"]), stallable=False)
        # fault "forward clock jump" (NTP step, resume after suspend): from its k-th reading on the wall clock is dt
        # ahead; scheduling time (self.now) is not affected
        jumps = self.cfg.get("clock_jumps")
        while jumps and jumps[0][0] <= self.stats["clock_reads"]:
            self.wall_offset += float(jumps.pop(0)[1])
            self.stats["clock_jumps"] += 1
        res = self.cfg.get("clock_res") or 0.0
        if res > 0:
            shown = math.floor((self.now + self.wall_offset) / res) * res
            if shown == self._shown:
                self.stats["coarse_equal"] += 1
            self._shown = shown
            return self.EPOCH + shown
        return self.EPOCH + self.now + self.wall_offset

    def wall(self):
        """The wall-clock time a reading would show now (no yield, not counted as a reading)."""
        return self.now + self.wall_offset

    def live_workers(self):
        return [t.name for t in self.tasks if t is not self.main and not t.done]


class Endpoint:
    """One end of a simulated multiprocessing Pipe (duplex)."""

    def __init__(self, sim, name):
        self.sim, self.name = sim, name
        self.inbox = []  # (deliver_time, payload bytes)
        self.peer = None
        self.last_deliver = 0.0
        self.reader = None
        self.closed = False
        self.bytes_in_flight = 0
        self.blocked_sender = None

    def __reduce__(self):  # pipes are inherited by children, never pickled by value
        return (_lookup_endpoint, (self.name,))

    def send(self, obj):
        sim = self.sim
        sim.pause(sim.u(sim.cfg["op"]))
        data = pickle.dumps(obj)
        p = self.peer
        cap = sim.cfg["pipe_cap"]
        if cap is not None:
            me = sim.current
            while p.bytes_in_flight > 0 and p.bytes_in_flight + len(data) > cap:
                sim.stats["send_blocked"] += 1
                p.blocked_sender = me
                sim.block(("send", self.name))
            p.blocked_sender = None
        lat = sim.u(sim.cfg["lat"])
        if sim.cfg["long_lat_p"] > 0 and sim.rng.random() < sim.cfg["long_lat_p"]:
            lat = sim.u(sim.cfg["long_lat"])
            sim.stats["long_lat"] += 1
        dt = max(p.last_deliver, sim.now + lat)
        p.last_deliver = dt
        p.inbox.append((dt, data))
        p.bytes_in_flight += len(data)
        sim.stats["msgs"] += 1
        sim.log(("send", self.name, _msg_tag(obj)))
        r = p.reader
        if r is not None:
            if r.wake is None:
                r.wake = dt
            else:
                r.wake = min(r.wake, dt)

    def _deliverable(self):
        return bool(self.inbox) and self.inbox[0][0] <= self.sim.now

    def _take(self):
        _, data = self.inbox.pop(0)
        self.bytes_in_flight -= len(data)
        s = self.blocked_sender
        if s is not None and s.wake is None:
            s.wake = self.sim.now
        return data

    def recv(self):
        sim = self.sim
        sim.pause(sim.u(sim.cfg["op"]))
        me = sim.current
        while not self._deliverable():
            self.reader = me
            if self.inbox:
                sim.wait_until(self.inbox[0][0])
            else:
                sim.block(("recv", self.name))
        self.reader = None
        data = self._take()
        obj = pickle.loads(data)
        sim.log(("recv", self.name, _msg_tag(obj)))
        return obj

    def poll(self, timeout=0.0):
        sim = self.sim
        sim.pause(sim.u(sim.cfg["op"]))
        me = sim.current
        if self._deliverable():
            return True
        deadline = sim.now + (timeout or 0.0)
        self.reader = me
        while sim.now < deadline and not self._deliverable():
            w = deadline
            if self.inbox:
                w = min(w, self.inbox[0][0])
            sim.wait_until(w)
        self.reader = None
        ok = self._deliverable()
        if not ok:
            sim.stats["poll_timeouts"] += 1
        return ok

    def close(self):
        self.closed = True


_ENDPOINTS = {}


def _lookup_endpoint(name):
    return _ENDPOINTS[name]


def _msg_tag(obj):
    if isinstance(obj, dict):
        return str(obj.get("task", "dict"))
    if isinstance(obj, str):
        return obj
    if isinstance(obj, tuple):
        return "tuple%d" % len(obj)
    return type(obj).__name__


class SimMP:
    """Factory for the multiprocessing stand-ins bound to one Sim."""

    def __init__(self, sim):
        self.sim = sim
        self.n_pipes = 0
        self.n_procs = 0
        self.processes = []
        self.pools = []
        _ENDPOINTS.clear()
        mp = self

        class SimEvent:
            def __init__(self):
                self.flag = False

            def __reduce__(self):
                raise TypeError("Event objects are shared through inheritance only")

            def set(self):
                sim.pause(sim.u(sim.cfg["op"]))
                self.flag = True
                sim.log(("evt_set", sim.current.name))

            def is_set(self):
                sim.pause(sim.u(sim.cfg["op"]))
                return self.flag

            def clear(self):
                sim.pause(sim.u(sim.cfg["op"]))
                self.flag = False

            def wait(self, timeout=None):
                deadline = None if timeout is None else sim.now + timeout
                while not self.flag:
                    if deadline is not None and sim.now >= deadline:
                        break
                    sim.pause(1e-3)
                return self.flag

        class SimProcess:
            def __init__(self, group=None, target=None, name=None, args=(), kwargs=None, daemon=None):
                mp.n_procs += 1
                self.name = name or ("w%d" % mp.n_procs)
                self.target, self.args, self.kwargs = target, tuple(args), dict(kwargs or {})
                self.task = None
                self.daemon = daemon
                mp.processes.append(self)

            def start(self):
                sim.pause(sim.u(sim.cfg["op"]))
                # fork/spawn semantics: the child works on its own copy of every
                # argument that is passed by value; transport objects are shared.
                args = tuple(_child_copy(a) for a in self.args)
                kwargs = {k: _child_copy(v) for k, v in self.kwargs.items()}
                if not sim.cfg["canonical"]:
                    sim.speed[self.name] = sim.rng.uniform(1.0, sim.cfg["speed_spread"])
                target = self.target
                self.task = sim.spawn(self.name, lambda: target(*args, **kwargs), ())
                self.task.wake = sim.now + sim.u(sim.cfg["start"])
                sim.log(("start", self.name))

            def join(self, timeout=None):
                sim.pause(sim.u(sim.cfg["op"]))
                me = sim.current
                deadline = None if timeout is None else sim.now + timeout
                while not self.task.done:
                    if deadline is not None:
                        if sim.now >= deadline:
                            return
                        self.task.waiters.append(me)
                        sim.wait_until(deadline)
                    else:
                        self.task.waiters.append(me)
                        sim.block(("join", self.name))

            def is_alive(self):
                return self.task is not None and not self.task.done

            @property
            def exitcode(self):
                if self.task is None or not self.task.done:
                    return None
                return 0 if self.task.exc is None else 1

            def terminate(self):
                pass

            kill = terminate

        class SimPool:
            """multiprocessing.Pool: n worker tasks pulling (f, item) jobs."""

            def __init__(self, processes=None, *a, **k):
                self.n = processes or 4
                mp.pools.append(self)
                self.served = {}

            def map(self, func, iterable, chunksize=None):
                items = list(iterable)
                sim.pause(sim.u(sim.cfg["op"]))
                jobs = [(i, pickle.dumps((func, it))) for i, it in enumerate(items)]
                # real Pool hands out jobs from a shared queue to whichever worker is free
                if not sim.cfg["canonical"] and sim.rng.random() < 0.3:
                    pass  # order of the queue is always FIFO in multiprocessing
                results = {}
                errors = {}
                queue = list(jobs)
                me = sim.current
                done_workers = [0]
                nworkers = max(1, min(self.n, len(items))) if items else 0
                # a worker may serve several items while another serves none
                if not sim.cfg["canonical"] and nworkers > 1 and sim.rng.random() < 0.35:
                    nworkers = sim.rng.randrange(1, nworkers + 1)
                    sim.stats["pool_starved"] = sim.stats.get("pool_starved", 0) + 1

                def worker(wname):
                    count = 0
                    while queue:
                        idx, blob = queue.pop(0)
                        sim.pause(sim.u(sim.cfg["lat"]))
                        f, it = pickle.loads(blob)
                        try:
                            out = f(it)
                            results[idx] = pickle.dumps(out)
                        except SimAbort:
                            raise
                        except BaseException as e:  # noqa
                            errors[idx] = e
                        count += 1
                        sim.pause(sim.u(sim.cfg["lat"]))
                    self.served[wname] = self.served.get(wname, 0) + count
                    done_workers[0] += 1
                    if me.wake is None:
                        me.wake = sim.now

                tasks = []
                for w in range(nworkers):
                    mp.n_procs += 1
                    wname = "pw%d" % mp.n_procs
                    if not sim.cfg["canonical"]:
                        sim.speed[wname] = sim.rng.uniform(1.0, sim.cfg["speed_spread"])
                    t = sim.spawn(wname, worker, (wname,))
                    t.wake = sim.now + sim.u(sim.cfg["start"])
                    tasks.append(t)
                while done_workers[0] < nworkers:
                    sim.block(("pool.map",))
                if any(v > 1 for v in self.served.values()):
                    sim.stats["pool_reuse"] = sim.stats.get("pool_reuse", 0) + 1
                if errors:
                    raise errors[min(errors)]
                return [pickle.loads(results[i]) for i in range(len(items))]

            def close(self):
                pass

            def terminate(self):
                pass

            def join(self):
                pass

            def __enter__(self):
                return self

            def __exit__(self, *a):
                return False

        def SimPipe(duplex=True):
            mp.n_pipes += 1
            a = Endpoint(sim, "p%d" % mp.n_pipes)
            b = Endpoint(sim, "c%d" % mp.n_pipes)
            a.peer, b.peer = b, a
            _ENDPOINTS[a.name] = a
            _ENDPOINTS[b.name] = b
            return a, b

        self.Event, self.Process, self.Pool, self.Pipe = SimEvent, SimProcess, SimPool, SimPipe


def _child_copy(obj):
    """What a child process sees of a parent's argument."""
    if isinstance(obj, Endpoint) or type(obj).__name__ == "SimEvent":
        return obj
    return pickle.loads(pickle.dumps(obj))
