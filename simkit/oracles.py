"""Oracles shared by several checks: exact fold, value comparison, state digests,
uniform read-out helpers that work for every sampler class."""
import hashlib
import math
from fractions import Fraction

import numpy as np

from .rng import RecordingGenerator
from .targets import Target, GradOf


class LibRaised(Exception):
    """An exception escaped a public operation of the library under test."""

    def __init__(self, op, exc):
        import traceback

        self.op = op
        self.exc = exc
        tb = traceback.extract_tb(exc.__traceback__)
        where = ""
        for fr in reversed(tb):
            if "/inference/" in fr.filename:
                where = " at %s:%d" % (fr.filename.split("/inference/")[-1], fr.lineno)
                break
        super().__init__("%s raised %s: %s%s" % (op, type(exc).__name__, str(exc).strip()[:300], where))


def lib_call(op, fn, *a, **k):
    """Call into the library; only exceptions raised *by that call* become LibRaised
    (a candidate violation) - anything raised by harness code stays a harness error."""
    from . import ctx as _c, kernel, seams

    try:
        return fn(*a, **k)
    except (kernel.Deadlock, kernel.StepCap, kernel.Overdue, kernel.SimAbort, seams.UnseamedNondeterminism,
            seams.BusyWait, _c.Runaway, _c.StepExhausted, _c.InjectedFailure):
        raise
    except Exception as e:  # noqa
        raise LibRaised(op, e) from e


def close(a, b, rtol=1e-10, atol=1e-12):
    a = float(a)
    b = float(b)
    if a == b:
        return True
    if math.isnan(a) or math.isnan(b):
        return False
    if math.isinf(a) or math.isinf(b):
        return False
    return abs(a - b) <= atol + rtol * max(abs(a), abs(b))


def fold_exact(x, lo, hi):
    """Exact symmetric fold of x into [lo, hi] in rational arithmetic.
    Returns (folded value as float, number of reflections)."""
    X, L, H = Fraction(float(x)), Fraction(float(lo)), Fraction(float(hi))
    W = H - L
    d = X - L
    q = d // W  # floor
    r = d - q * W
    if q % 2 == 0:
        y = L + r
    else:
        y = H - r
    # reflections: number of walls crossed
    n = abs(int(q))
    return float(y), n


def ulp_tol(lo, hi, k=4):
    s = max(abs(float(lo)), abs(float(hi)), float(hi) - float(lo))
    return k * np.spacing(s)


# ---------------------------------------------------------------- uniform read-outs
def full_sample(chain):
    s = np.asarray(chain.get_sample(burn=0, thin=1), dtype=float)
    return s


def full_probs(chain):
    return np.asarray(chain.get_probabilities(burn=0, thin=1), dtype=float)


def chain_temperature(chain):
    it = getattr(chain, "inv_temp", None)
    if it is None:
        return 1.0
    return 1.0 / float(it)


def check_probs_belong(chain, target, T, start=0, label=""):
    """C03 core invariant on rows [start:]: probs[k] == target.logpdf(sample[k]) / T.
    Returns list of violation details (empty = ok)."""
    out = []
    S = full_sample(chain)
    P = full_probs(chain)
    if S.ndim != 2:
        out.append("%sget_sample(burn=0) is not 2-D: shape %r" % (label, S.shape))
        return out
    if S.shape[0] != P.shape[0]:
        out.append("%s%d stored samples but %d stored log-probabilities" % (label, S.shape[0], P.shape[0]))
    n = min(S.shape[0], P.shape[0])
    for k in range(max(0, start), n):
        want = target.logpdf(S[k]) / T
        if not close(P[k], want, rtol=1e-9, atol=1e-9):
            out.append("%srow %d: stored log-prob %r but posterior(sample)/T = %r (sample %r, T=%g)"
                       % (label, k, float(P[k]), want, S[k].tolist(), T))
            if len(out) >= 3:
                break
    return out


# ---------------------------------------------------------------- state digests
def canon(obj, depth=0, seen=None):
    """Canonical, hashable description of the numeric state reachable from obj."""
    if seen is None:
        seen = set()
    if depth > 8:
        return "<deep>"
    if obj is None or isinstance(obj, (bool, int, str)):
        return obj
    if isinstance(obj, float):
        return obj.hex() if obj == obj else "nan"
    if isinstance(obj, np.generic):
        return canon(obj.item(), depth, seen)
    if isinstance(obj, np.ndarray):
        if obj.dtype == object:
            return [canon(v, depth + 1, seen) for v in obj.tolist()]
        return ("nd", str(obj.dtype), obj.shape, hashlib.sha256(np.ascontiguousarray(obj).tobytes()).hexdigest()[:16])
    if isinstance(obj, RecordingGenerator):
        st = obj.bit_generator.state
        return ("rng", str(st["state"]["state"]), str(st["state"]["inc"]), st.get("has_uint32"), st.get("uinteger"))
    if isinstance(obj, (Target, GradOf)):
        return "<target>"
    if isinstance(obj, (list, tuple)):
        if len(obj) > 0 and all(isinstance(v, (float, int, np.floating, np.integer)) for v in obj[:4]):
            try:
                a = np.asarray(obj, dtype=float)
                return ("seq", a.shape, hashlib.sha256(a.tobytes()).hexdigest()[:16])
            except Exception:
                pass
        return [canon(v, depth + 1, seen) for v in obj]
    if isinstance(obj, dict):
        return {repr(k): canon(v, depth + 1, seen) for k, v in sorted(obj.items(), key=lambda kv: repr(kv[0]))}
    if callable(obj) and not hasattr(obj, "__dict__"):
        return "<callable>"
    if id(obj) in seen:
        return "<cycle>"
    d = getattr(obj, "__dict__", None)
    if isinstance(d, dict):
        seen.add(id(obj))
        out = {}
        for k in sorted(d):
            v = d[k]
            if callable(v) and not isinstance(v, (Target, GradOf)):
                # bound methods / function attributes: record only the name
                out[k] = getattr(v, "__name__", "<callable>")
                continue
            out[k] = canon(v, depth + 1, seen)
        return (type(obj).__name__, out)
    return "<%s>" % type(obj).__name__


def state_digest(obj):
    return hashlib.sha256(repr(canon(obj)).encode()).hexdigest()[:16]


def readout_digest(chain):
    h = hashlib.sha256()
    h.update(np.ascontiguousarray(full_sample(chain)).tobytes())
    h.update(np.ascontiguousarray(full_probs(chain)).tobytes())
    return h.hexdigest()[:16]


# ---------------------------------------------------------------- numeric state of two samplers, compared attribute by attribute
def _ns_skip(obj):
    from simkit.rng import RecordingGenerator
    from simkit.targets import Target, GradOf

    return isinstance(obj, (RecordingGenerator, np.random.Generator, Target, GradOf))


# the state the samplers themselves report and write to their save files (by attribute name), and the attributes
# that hold sub-objects carrying such state.  Anything else (scratch buffers, caches) is nobody's reported state.
REPORTED_STATE = frozenset("""samples sigma avg var num sigma_values sigma_checks try_count last_update target_rate max_tries
    chk_int growth_factor adjust_rate _non_negative bounded upper lower width chain_length n_parameters probs inv_temp
    dir_update_interval dir_growth_factor next_update angles_history update_history directions covar inv_mass theta
    leapfrog_steps steps walker_positions n_walkers walker_probs n_iterations total_proposals failed_updates alpha
    max_attempts sample sample_probs epsilon epsilon_values epsilon_checks accept_rate x_lwr x_width
    params ES mass bounds""".split())


def numeric_state(obj, depth=0, seen=None, only=None):
    """Every number reachable from a sampler's attributes, by attribute path, with representation differences
    removed (python / numpy scalars, lists / tuples / arrays of numbers are the same thing here).  Generators,
    the user's posterior and the progress printer are left out; with `only`, attributes not named in it too."""
    if seen is None:
        seen = set()
    if depth > 6:
        return "<deep>"
    if obj is None or isinstance(obj, (bool, str)):
        return obj
    if isinstance(obj, (int, float, np.generic)):
        f = float(obj)
        return f if f == f else "nan"
    if _ns_skip(obj):
        return "<skip>"
    if isinstance(obj, np.ndarray) and obj.ndim == 0 and obj.dtype != object:
        return numeric_state(obj.item(), depth, seen, only)
    if isinstance(obj, (np.ndarray, list, tuple)):
        try:
            a = np.asarray(obj, dtype=float)
            return ("num", a.shape, hashlib.sha256(np.ascontiguousarray(a).tobytes()).hexdigest()[:16],
                    float(np.nansum(a)) if a.size else 0.0)
        except Exception:  # noqa - not a block of numbers
            return [numeric_state(v, depth + 1, seen, only) for v in obj]
    if isinstance(obj, dict):
        return {str(k): numeric_state(v, depth + 1, seen, only) for k, v in obj.items()}
    if callable(obj) and not hasattr(obj, "__dict__"):
        return "<callable>"
    if id(obj) in seen:
        return "<cycle>"
    d = getattr(obj, "__dict__", None)
    if isinstance(d, dict):
        seen.add(id(obj))
        out = {}
        for k, v in d.items():
            if callable(v) and not hasattr(v, "__dict__"):
                continue
            if type(v).__name__ == "ChainProgressPrinter" or k in ("posterior", "grad", "ProgressPrinter"):
                continue
            if only is not None and k not in only:
                continue
            out[k] = numeric_state(v, depth + 1, seen, only)
        return out
    return "<%s>" % type(obj).__name__


def state_diff(a, b, path=""):
    """Attribute paths at which two numeric_state() descriptions differ (a = reloaded, b = original)."""
    out = []
    if isinstance(a, dict) and isinstance(b, dict):
        for k in sorted(set(a) | set(b)):
            if (k not in a or k not in b) and k.startswith("_"):
                continue  # a private attribute held by one of the two only (caches and the like) is not reported state
            if k not in a:
                out.append(path + "/" + k + " missing after reload")
            elif k not in b:
                out.append(path + "/" + k + " only after reload")
            else:
                out += state_diff(a[k], b[k], path + "/" + k)
    elif isinstance(a, list) and isinstance(b, list) and len(a) == len(b):
        for i, (x, y) in enumerate(zip(a, b)):
            out += state_diff(x, y, path + "[%d]" % i)
    elif a != b:
        out.append("%s: %s after reload, %s for the original" % (path, str(a)[:90], str(b)[:90]))
    return out
