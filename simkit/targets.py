"""Harness posteriors: picklable log-densities with exact samplers and exact CDFs of
pi^(1/T), so oracles never depend on the code under test.

Every evaluation is stamped with the run-global event number and logged; when a process
simulation (or a fake clock) is active an evaluation costs simulated time and is a
pre-emption point.
"""
import math

import numpy as np
from scipy import special, stats

from . import ctx as _ctx

NEG_INF = float("-inf")


class Target:
    """Base: product / transformed densities on R^d.  Sub-classes define logpdf, grad,
    draw(rng, T) and cdf_u(x, T) (probability-integral transform of each tested
    functional under pi^(1/T), uniform on [0,1] when x ~ pi^(1/T))."""

    kind = "base"

    def __init__(self, d, tag="t0"):
        self.d = int(d)
        self.tag = tag
        self.cost = None  # overrides ctx.eval_cost when not None

    # -- the callable handed to the samplers
    def __call__(self, theta):
        th = np.array(theta, dtype=float, copy=True).reshape(-1)
        c = _ctx.get()
        if c is not None and c.eval_failures:
            left = c.eval_failures.get(self.tag)
            if left is not None:
                left, exc_type = left if isinstance(left, tuple) else (left, _ctx.InjectedFailure)
                if left <= 1:
                    c.eval_failures[self.tag] = None
                    c.stats["fault_posterior_raised_mid_operation"] += 1
                    raise exc_type("the posterior raised at %r" % (th.tolist(),))
                c.eval_failures[self.tag] = (left - 1, exc_type)
        # like any real log-density, a non-finite argument gives a non-finite (NaN) value
        v = self.logpdf(th) if np.all(np.isfinite(th)) else float("nan")
        self._note("post", th, v)
        return v

    def gradient(self, theta):
        th = np.array(theta, dtype=float, copy=True).reshape(-1)
        g = self.grad(th)
        self._note("grad", th, None)
        return g

    def _note(self, kind, th, v):
        c = _ctx.get()
        if c is None:
            return
        for m in c.monitors:
            m(kind, self.tag, th)
        if c.record:
            c.post_logs.setdefault(self.tag, []).append((c.next_seq(), kind, th, v))
        else:
            c.seq += 1
        c.stats["evals_" + kind] += 1
        if c.eval_budget is not None:
            c.eval_budget -= 1
            if c.eval_budget < 0:
                c.eval_budget = None
                raise _ctx.Runaway("evaluation budget of the operation exhausted")
        b = c.eval_budgets.get(self.tag)
        if kind == "post":
            # a sampler whose proposals have become NaN / inf never accepts again (known finding F3): thousands of
            # consecutive evaluations at non-finite points end the operation like an exhausted budget does
            self._nonfinite_run = 0 if np.all(np.isfinite(th)) else getattr(self, "_nonfinite_run", 0) + 1
            if self._nonfinite_run > 2000 and (b is not None or c.eval_budget is not None):
                self._nonfinite_run = 0
                c.eval_budgets[self.tag] = None
                raise _ctx.Runaway("2000 consecutive posterior evaluations at non-finite points")
        if b is not None:
            c.eval_budgets[self.tag] = b - 1
            if b - 1 < 0:
                c.eval_budgets[self.tag] = None
                raise _ctx.Runaway("evaluation budget of the operation exhausted")
        cost = self.cost if self.cost is not None else (c.eval_cost if kind == "post" else c.grad_cost)
        if c.sim is not None:
            if cost > 0:
                c.sim.pause(cost)
        elif c.clock is not None:
            if kind == "post":
                c.clock.note_eval()
                extra = c.eval_stalls.get(c.stats["evals_post"])
                if extra:
                    cost = cost * extra
                    c.stats["fault_slow_evaluation"] += 1
            if cost > 0:
                c.clock.advance(cost)

    # -- to be provided
    def logpdf(self, th):
        raise NotImplementedError

    def grad(self, th):
        raise NotImplementedError

    def draw(self, rng, T=1.0):
        raise NotImplementedError

    def functionals(self, X, T=1.0):
        """X: (N, d) draws.  Returns dict name -> (N,) array uniform on [0,1] under pi^(1/T)."""
        raise NotImplementedError

    def moments(self, T=1.0):
        """(mean vector, variance vector) of pi^(1/T) (None if not available)."""
        return None

    def spec(self):
        return {"kind": self.kind, "d": self.d}


class Gauss(Target):
    """N(mu, diag(s^2)); pi^(1/T) = N(mu, T diag(s^2))."""

    kind = "gauss"

    def __init__(self, d, mu=None, s=None, tag="t0"):
        super().__init__(d, tag)
        self.mu = np.zeros(d) if mu is None else np.array(mu, dtype=float)
        self.s = np.ones(d) if s is None else np.array(s, dtype=float)

    def logpdf(self, th):
        z = (th - self.mu) / self.s
        return -0.5 * float(z @ z)

    def grad(self, th):
        return -(th - self.mu) / self.s ** 2

    def draw(self, rng, T=1.0):
        return self.mu + self.s * math.sqrt(T) * rng.standard_normal(self.d)

    def functionals(self, X, T=1.0):
        Z = (X - self.mu) / (self.s * math.sqrt(T))
        out = {"x%d" % i: stats.norm.cdf(Z[:, i]) for i in range(self.d)}
        if self.d > 1:
            out["sum"] = stats.norm.cdf(Z.sum(axis=1) / math.sqrt(self.d))
            out["diff01"] = stats.norm.cdf((Z[:, 0] - Z[:, 1]) / math.sqrt(2))
        out["r2"] = stats.chi2.cdf((Z ** 2).sum(axis=1), self.d)
        return out

    def moments(self, T=1.0):
        return self.mu.copy(), T * self.s ** 2

    def spec(self):
        return {"kind": self.kind, "d": self.d, "mu": self.mu.tolist(), "s": self.s.tolist()}


class CorrGauss(Target):
    """N(0, Sigma) with Sigma = L L^T; pi^(1/T) = N(0, T Sigma)."""

    kind = "corrgauss"

    def __init__(self, d, rho=0.8, tag="t0"):
        super().__init__(d, tag)
        self.rho = float(rho)
        S = np.full((d, d), self.rho) + (1 - self.rho) * np.eye(d)
        sc = np.arange(1, d + 1, dtype=float)
        self.Sigma = S * sc[:, None] * sc[None, :]
        self.L = np.linalg.cholesky(self.Sigma)
        self.P = np.linalg.inv(self.Sigma)

    def logpdf(self, th):
        return -0.5 * float(th @ self.P @ th)

    def grad(self, th):
        return -(self.P @ th)

    def draw(self, rng, T=1.0):
        return math.sqrt(T) * (self.L @ rng.standard_normal(self.d))

    def functionals(self, X, T=1.0):
        W = np.linalg.solve(self.L, X.T).T / math.sqrt(T)  # whitened: iid N(0,1)
        out = {"w%d" % i: stats.norm.cdf(W[:, i]) for i in range(self.d)}
        sd = np.sqrt(np.diag(self.Sigma) * T)
        for i in range(self.d):
            out["x%d" % i] = stats.norm.cdf(X[:, i] / sd[i])
        out["r2"] = stats.chi2.cdf((W ** 2).sum(axis=1), self.d)
        return out

    def moments(self, T=1.0):
        return np.zeros(self.d), T * np.diag(self.Sigma)

    def spec(self):
        return {"kind": self.kind, "d": self.d, "rho": self.rho}


class Laplace(Target):
    """prod exp(-|x_i|/b_i); pi^(1/T) is Laplace with scale b T."""

    kind = "laplace"

    def __init__(self, d, b=None, tag="t0"):
        super().__init__(d, tag)
        self.b = np.ones(d) if b is None else np.array(b, dtype=float)

    def logpdf(self, th):
        return -float(np.sum(np.abs(th) / self.b))

    def grad(self, th):
        return -np.sign(th) / self.b

    def draw(self, rng, T=1.0):
        return rng.laplace(0.0, self.b * T, self.d)

    def functionals(self, X, T=1.0):
        out = {"x%d" % i: stats.laplace.cdf(X[:, i], scale=self.b[i] * T) for i in range(self.d)}
        out["l1"] = stats.gamma.cdf((np.abs(X) / (self.b * T)).sum(axis=1), self.d)
        return out

    def moments(self, T=1.0):
        return np.zeros(self.d), 2 * (self.b * T) ** 2

    def spec(self):
        return {"kind": self.kind, "d": self.d, "b": self.b.tolist()}


class Cauchy(Target):
    """Spherical multivariate Cauchy, (1 + |x|^2)^(-(d+1)/2): stretching a walker by z changes the log-density by
    about -(d+1) log z, so that in many dimensions the two factors z^(d-1) and p(Y)/p(X) of the stretch-move ratio
    are huge and tiny (beyond the range of exp) while their product is moderate."""

    kind = "cauchy"

    def logpdf(self, th):
        return -0.5 * (self.d + 1.0) * float(np.log1p(float(th @ th)))

    def grad(self, th):
        return -(self.d + 1.0) * th / (1.0 + float(th @ th))

    def draw(self, rng, T=1.0):
        return rng.standard_normal(self.d) / abs(float(rng.standard_normal()))


class GammaPos(Target):
    """prod x^(k-1) e^(-x) on x>0 (-inf elsewhere); pi^(1/T) = Gamma((k-1)/T+1, scale T)."""

    kind = "gamma"

    def __init__(self, d, k=3.0, tag="t0"):
        super().__init__(d, tag)
        self.k = float(k)

    def logpdf(self, th):
        if (th <= 0).any():
            return NEG_INF
        return float(np.sum((self.k - 1) * np.log(th) - th))

    def grad(self, th):
        return (self.k - 1) / th - 1.0

    def draw(self, rng, T=1.0):
        return rng.gamma((self.k - 1) / T + 1.0, T, self.d)

    def functionals(self, X, T=1.0):
        a = (self.k - 1) / T + 1.0
        out = {"x%d" % i: stats.gamma.cdf(X[:, i], a, scale=T) for i in range(self.d)}
        out["sum"] = stats.gamma.cdf(X.sum(axis=1), a * self.d, scale=T)
        return out

    def moments(self, T=1.0):
        a = (self.k - 1) / T + 1.0
        return np.full(self.d, a * T), np.full(self.d, a * T * T)

    def spec(self):
        return {"kind": self.kind, "d": self.d, "k": self.k}


class TruncGauss(Target):
    """N(mu, s^2) restricted to a box [lo, hi] (value -inf outside: the samplers'
    bounds are expected to keep evaluations inside, the moat is the harness' check)."""

    kind = "truncgauss"

    def __init__(self, d, lo, hi, mu=None, s=None, tag="t0", strict=False):
        super().__init__(d, tag)
        self.lo = np.array(lo, dtype=float)
        self.hi = np.array(hi, dtype=float)
        self.mu = np.zeros(d) if mu is None else np.array(mu, dtype=float)
        self.s = np.ones(d) if s is None else np.array(s, dtype=float)
        self.strict = strict

    def logpdf(self, th):
        if self.strict and ((th < self.lo).any() or (th > self.hi).any()):
            return NEG_INF
        z = (th - self.mu) / self.s
        return -0.5 * float(z @ z)

    def grad(self, th):
        return -(th - self.mu) / self.s ** 2

    def _ab(self, T):
        sc = self.s * math.sqrt(T)
        return special.ndtr((self.lo - self.mu) / sc), special.ndtr((self.hi - self.mu) / sc), sc

    def draw(self, rng, T=1.0):
        a, b, sc = self._ab(T)
        u = rng.random(self.d)
        x = self.mu + sc * special.ndtri(a + u * (b - a))
        return np.clip(x, self.lo, self.hi)

    def functionals(self, X, T=1.0):
        a, b, sc = self._ab(T)
        out = {}
        for i in range(self.d):
            out["x%d" % i] = (stats.norm.cdf((X[:, i] - self.mu[i]) / sc[i]) - a[i]) / (b[i] - a[i])
        return out

    def moments(self, T=1.0):
        a, b, sc = self._ab(T)
        al, be = (self.lo - self.mu) / sc, (self.hi - self.mu) / sc
        Z = b - a
        pa, pb = stats.norm.pdf(al), stats.norm.pdf(be)
        m = self.mu + sc * (pa - pb) / Z
        v = sc ** 2 * (1 + (al * pa - be * pb) / Z - ((pa - pb) / Z) ** 2)
        return m, v

    def spec(self):
        return {"kind": self.kind, "d": self.d, "lo": self.lo.tolist(), "hi": self.hi.tolist(),
                "mu": self.mu.tolist(), "s": self.s.tolist()}


class BoxPower(Target):
    """prod (x_i - lo_i)^p on the box [lo, hi] (p = 0: flat, p = 1: linear).
    pi^(1/T) has CDF ((x-lo)/w)^(p/T+1)."""

    kind = "boxpower"

    def __init__(self, d, lo, hi, p=0.0, tag="t0"):
        super().__init__(d, tag)
        self.lo = np.array(lo, dtype=float)
        self.hi = np.array(hi, dtype=float)
        self.p = float(p)

    def logpdf(self, th):
        if (th < self.lo).any() or (th > self.hi).any():
            return NEG_INF
        if self.p == 0.0:
            return 0.0
        r = (th - self.lo) / (self.hi - self.lo)
        if (r <= 0).any():
            return NEG_INF
        return float(self.p * np.sum(np.log(r)))

    def grad(self, th):
        if self.p == 0.0:
            return np.zeros(self.d)
        return self.p / (th - self.lo)

    def draw(self, rng, T=1.0):
        u = rng.random(self.d)
        return self.lo + (self.hi - self.lo) * u ** (1.0 / (self.p / T + 1.0))

    def functionals(self, X, T=1.0):
        r = np.clip((X - self.lo) / (self.hi - self.lo), 0, 1)
        return {"x%d" % i: r[:, i] ** (self.p / T + 1.0) for i in range(self.d)}

    def moments(self, T=1.0):
        a = self.p / T + 1.0  # Beta(a, 1)
        w = self.hi - self.lo
        m = a / (a + 1)
        v = a / ((a + 1) ** 2 * (a + 2))
        return self.lo + w * m, w ** 2 * v

    def spec(self):
        return {"kind": self.kind, "d": self.d, "lo": self.lo.tolist(), "hi": self.hi.tolist(), "p": self.p}


class Banana(Target):
    """Volume-preserving transform of a Gaussian: y0 = x0, y1 = x1 - c (x0^2 - s0^2),
    y ~ N(0, diag(s^2)) (further coordinates plain Gaussian)."""

    kind = "banana"

    def __init__(self, d, c=0.5, tag="t0"):
        super().__init__(max(2, d), tag)
        self.c = float(c)
        self.s = np.ones(self.d)
        self.s[0] = 1.5

    def _y(self, th, T=1.0):
        y = np.array(th, dtype=float, copy=True)
        y[..., 1] = th[..., 1] - self.c * (th[..., 0] ** 2 - T * self.s[0] ** 2)
        return y

    def logpdf(self, th):
        y = self._y(th)
        z = y / self.s
        return -0.5 * float(z @ z)

    def grad(self, th):
        y = self._y(th)
        gy = -y / self.s ** 2
        g = gy.copy()
        g[0] = gy[0] + gy[1] * (-2 * self.c * th[0])
        return g

    # pi^(1/T): y/sqrt(T) ... the transform is not linear, so only T=1 has the simple form
    def draw(self, rng, T=1.0):
        assert T == 1.0
        y = self.s * rng.standard_normal(self.d)
        x = y.copy()
        x[1] = y[1] + self.c * (y[0] ** 2 - self.s[0] ** 2)
        return x

    def functionals(self, X, T=1.0):
        assert T == 1.0
        Y = self._y(X) / self.s
        out = {"y%d" % i: stats.norm.cdf(Y[:, i]) for i in range(self.d)}
        out["r2"] = stats.chi2.cdf((Y ** 2).sum(axis=1), self.d)
        return out

    def spec(self):
        return {"kind": self.kind, "d": self.d, "c": self.c}


class Moat(Target):
    """N(0,1)^d with a zero-probability slab a < |x_0| < b removed (value -inf there):
    three islands {|x0|<=a}, {x0>=b}, {x0<=-b}; a proposal landing in the moat must never
    be stored.  pi^(1/T) is the same construction with variance T."""

    kind = "moat"

    def __init__(self, d, a=0.4, b=0.7, tag="t0"):
        super().__init__(d, tag)
        self.a, self.b = float(a), float(b)

    def in_moat(self, th):
        x = abs(th[0])
        return self.a < x < self.b

    def logpdf(self, th):
        if self.in_moat(th):
            return NEG_INF
        return -0.5 * float(th @ th)

    def grad(self, th):
        return -th

    def draw(self, rng, T=1.0):
        while True:
            x = math.sqrt(T) * rng.standard_normal(self.d)
            if not self.in_moat(x):
                return x

    def functionals(self, X, T=1.0):
        s = math.sqrt(T)
        F = stats.norm.cdf
        a, b = self.a / s, self.b / s
        x0 = X[:, 0] / s
        # CDF of N(0,1) with (a,b) and (-b,-a) removed
        gap = F(b) - F(a)
        Z = 1 - 2 * gap

        def cdf(v):
            base = F(v)
            base = np.where(v > -b, np.where(v < -a, F(-b), base - gap), base)
            base = np.where(v > a, np.where(v < b, F(a) - gap, base - gap), base)
            return base / Z

        out = {"x0": cdf(x0)}
        for i in range(1, self.d):
            out["x%d" % i] = F(X[:, i] / s)
        return out

    def spec(self):
        return {"kind": self.kind, "d": self.d, "a": self.a, "b": self.b}


def make_target(spec, tag="t0"):
    k = spec["kind"]
    d = spec["d"]
    if k == "gauss":
        return Gauss(d, spec.get("mu"), spec.get("s"), tag=tag)
    if k == "corrgauss":
        return CorrGauss(d, spec.get("rho", 0.8), tag=tag)
    if k == "laplace":
        return Laplace(d, spec.get("b"), tag=tag)
    if k == "cauchy":
        return Cauchy(d, tag=tag)
    if k == "gamma":
        return GammaPos(d, spec.get("k", 3.0), tag=tag)
    if k == "truncgauss":
        return TruncGauss(d, spec["lo"], spec["hi"], spec.get("mu"), spec.get("s"), tag=tag,
                          strict=spec.get("strict", False))
    if k == "boxpower":
        return BoxPower(d, spec["lo"], spec["hi"], spec.get("p", 0.0), tag=tag)
    if k == "banana":
        return Banana(d, spec.get("c", 0.5), tag=tag)
    if k == "moat":
        return Moat(d, spec.get("a", 0.4), spec.get("b", 0.7), tag=tag)
    raise ValueError("unknown target kind %r" % k)


class GradOf:
    """Picklable gradient callable bound to a target (so that chain + grad pickle)."""

    def __init__(self, target):
        self.target = target

    def __call__(self, theta):
        return self.target.gradient(theta)
