"""Batch driver: seeded search over scenarios across worker processes, shrinking,
replay verification in a fresh interpreter, evidence writing, exit codes.

exit 0  property held on everything explored (KNOWN-FINDING lines may be printed)
exit 1  a violation was found, minimised, written to a replay file, and reproduced by
        replaying that file in a fresh interpreter: `VIOLATION property=<id> replay=<path>`
exit 2  harness error (worker crash / time-out / failure that does not replay): never a
        VIOLATION line, never exit 0
"""
import argparse
import collections
import concurrent.futures as cf
import faulthandler
import hashlib
import importlib
import json
import multiprocessing
import os
import subprocess
import sys
import time
import traceback

VERIF = os.path.dirname(os.path.dirname(os.path.abspath(__file__)))
PY = sys.executable
OUT = os.environ.get("VERIF_OUT") or VERIF  # where evidence/ and replays/ are written


class ViolationFound(Exception):
    pass


def jdump(obj):
    return json.dumps(obj, sort_keys=True, default=_jdefault)


def _jdefault(o):
    import numpy as np

    if isinstance(o, np.ndarray):
        return o.tolist()
    if isinstance(o, np.generic):
        return o.item()
    if isinstance(o, (set, frozenset)):
        return sorted(o)
    return repr(o)


def digest(obj):
    return hashlib.sha256(jdump(obj).encode()).hexdigest()[:16]


# ------------------------------------------------------------------ known findings
def load_known():
    p = os.path.join(VERIF, "known_findings.json")
    if not os.path.exists(p):
        return []
    with open(p) as f:
        return json.load(f).get("findings", [])


def match_known(prop, viol, known):
    """A violation is a known finding only if every key of the entry's `match` agrees
    with the violation's `key` (a list in the entry means 'one of') and, when the entry
    has a `band`, the measured value lies inside it."""
    key = viol.get("key") or {}
    for k in known:
        if k.get("property") != prop:
            continue
        if k.get("invariant") and k["invariant"] != viol.get("invariant"):
            continue
        ok = True
        for mk, mv in (k.get("match") or {}).items():
            v = key.get(mk)
            if isinstance(mv, list):
                if v not in mv:
                    ok = False
            elif v != mv:
                ok = False
        if ok and k.get("band") is not None:
            val = viol.get("value")
            lo, hi = k["band"]
            if val is None or not (lo <= val <= hi):
                ok = False
        if ok:
            return k
    return None


# ------------------------------------------------------------------ worker side
_STOP_FLAG = None


def _stop_requested():
    return _STOP_FLAG is not None and os.path.exists(_STOP_FLAG)


class Agg:
    """Per-job aggregate that travels back to the parent."""

    def __init__(self):
        self.evaluations = 0
        self.nontrivial = set()
        self.digests = set()
        self.shapes = set()
        self.stats = collections.Counter()
        self.sim_seconds = 0.0
        self.samples = []
        self.known = {}
        self.failure = None
        self.harness_error = None
        self.exec_seconds = 0.0

    def add(self, sc, res, keep_sample):
        self.evaluations += 1
        d = res.get("digest") or digest(sc)
        self.digests.add(d)
        if res.get("nontrivial"):
            self.nontrivial.add(digest(sc))
        if res.get("shape"):
            self.shapes.add(res["shape"])
        self.stats.update(res.get("stats") or {})
        self.sim_seconds += float(res.get("sim_seconds") or 0.0)
        if keep_sample and len(self.samples) < 2 and res.get("nontrivial"):
            self.samples.append(sc)

    def pack(self):
        return dict(evaluations=self.evaluations, nontrivial=sorted(self.nontrivial),
                    digests=sorted(self.digests), shapes=sorted(self.shapes), stats=dict(self.stats),
                    sim_seconds=self.sim_seconds, samples=self.samples, known=self.known,
                    failure=self.failure, harness_error=self.harness_error, exec_seconds=self.exec_seconds)


def _execute_guarded(mod, sc):
    """Run one scenario; exceptions escaping the executor are harness errors."""
    dbg = os.environ.get("VERIF_DEBUG_LAST")
    if dbg:
        with open(dbg, "w") as f:
            f.write(jdump(sc))
    return mod.execute(sc)


def _split_known(prop, res, known):
    real, kn = [], []
    for v in res.get("violations") or []:
        k = match_known(prop, v, known)
        if k is not None:
            kn.append((k["id"], v))
        else:
            real.append(v)
    return real, kn


def hyp_job(modname, tier, hseed, n_examples, timeout):
    """One Hypothesis round: generate n scenarios from `hseed`, execute each, shrink the
    first failure.  Returns a packed Agg."""
    from hypothesis import HealthCheck, Phase, given, seed, settings
    import hypothesis.internal.conjecture.engine as eng

    eng.MAX_SHRINKING_SECONDS = 45
    faulthandler.dump_traceback_later(timeout, exit=True)
    agg = Agg()
    if _stop_requested():
        faulthandler.cancel_dump_traceback_later()
        return agg.pack()
    mod = importlib.import_module(modname)
    known = load_known()
    prop = mod.PROPERTY
    st = {"target": None, "last": None, "shrinking": False}
    t0 = time.time()

    def one(sc):
        res = _execute_guarded(mod, sc)
        real, kn = _split_known(prop, res, known)
        if not st["shrinking"]:
            agg.add(sc, res, True)
            for kid, v in kn:
                agg.known.setdefault(kid, v.get("detail", ""))
        if real:
            if st["target"] is None:
                st["target"] = real[0]["invariant"]
                st["shrinking"] = True
            hit = [v for v in real if v["invariant"] == st["target"]]
            if hit:
                st["last"] = (sc, hit[0])
                raise ViolationFound(st["target"])

    test = settings(max_examples=n_examples, database=None, deadline=None, report_multiple_bugs=False,
                    suppress_health_check=list(HealthCheck), phases=[Phase.generate, Phase.shrink],
                    print_blob=False)(seed(hseed)(given(mod.scenarios(tier))(one)))
    try:
        test()
    except ViolationFound:
        sc, v = st["last"]
        agg.failure = dict(scenario=sc, violation=v, hyp_seed=hseed)
    except BaseException as e:  # noqa
        if st["last"] is not None:
            sc, v = st["last"]
            agg.failure = dict(scenario=sc, violation=v, hyp_seed=hseed)
        else:
            agg.harness_error = "%s: %s\n%s" % (type(e).__name__, e, traceback.format_exc()[-3000:])
    agg.exec_seconds = time.time() - t0
    faulthandler.cancel_dump_traceback_later()
    return agg.pack()


def stat_job(modname, job, timeout):
    """One statistical / deterministic job described by plain data."""
    faulthandler.dump_traceback_later(timeout, exit=True)
    agg = Agg()
    if _stop_requested():
        faulthandler.cancel_dump_traceback_later()
        return agg.pack()
    mod = importlib.import_module(modname)
    known = load_known()
    t0 = time.time()
    try:
        res = mod.run_job(job)
        real, kn = _split_known(mod.PROPERTY, res, known)
        agg.evaluations += int(res.get("evaluations", 1))
        for d in res.get("digests", []):
            agg.digests.add(d)
        for d in res.get("nontrivial_ids", []):
            agg.nontrivial.add(d)
        agg.stats.update(res.get("stats") or {})
        agg.sim_seconds += float(res.get("sim_seconds") or 0.0)
        if res.get("sample") is not None and len(agg.samples) < 1:
            agg.samples.append(res["sample"])
        for kid, v in kn:
            agg.known.setdefault(kid, v.get("detail", ""))
        if real:
            agg.failure = dict(job=job, violation=real[0])
    except BaseException as e:  # noqa
        agg.harness_error = "%s: %s\n%s" % (type(e).__name__, e, traceback.format_exc()[-3000:])
    agg.exec_seconds = time.time() - t0
    faulthandler.cancel_dump_traceback_later()
    return agg.pack()


# ------------------------------------------------------------------ parent side
def _derive(seed, *path):
    h = hashlib.sha256(("%d:" % seed + ":".join(str(p) for p in path)).encode()).digest()
    return int.from_bytes(h[:6], "big")


def run_check(modname, tier, seed, workers=None, out=sys.stdout):
    global _STOP_FLAG
    t_start = time.time()
    from . import seams

    seams.import_inference()  # import once, before forking
    mod = importlib.import_module(modname)
    prop = mod.PROPERTY
    plan = mod.plan(tier)
    workers = workers or int(os.environ.get("VERIF_WORKERS", "0")) or min(16, os.cpu_count() or 4)
    scratch = os.path.join(VERIF, ".scratch")
    os.makedirs(scratch, exist_ok=True)
    _STOP_FLAG = os.path.join(scratch, "stop-%s-%d" % (prop, os.getpid()))
    if os.path.exists(_STOP_FLAG):
        os.remove(_STOP_FLAG)
    print("VERIF_SEED=%d property=%s tier=%s workers=%d repo=%s" % (seed, prop, tier, workers, seams.repo_path()),
          file=out, flush=True)

    jobs = []
    if hasattr(mod, "stat_jobs"):  # the long jobs first (better load balance)
        for j in mod.stat_jobs(tier, seed):
            jobs.append(("stat", (modname, j, plan.get("job_timeout", 600))))
    for r in range(plan.get("rounds", 0)):
        jobs.append(("hyp", (modname, tier, _derive(seed, "hyp", r), plan["examples_per_round"],
                             plan.get("job_timeout", 600))))
    # big jobs first
    wall_cap = plan.get("wall_cap", 1e9)
    total = Agg()
    failures, herrors = [], []
    skipped = 0
    ctx = multiprocessing.get_context("fork")
    pending = list(jobs)
    with cf.ProcessPoolExecutor(max_workers=workers, mp_context=ctx) as ex:
        futs = {}
        try:
            while pending or futs:
                while pending and len(futs) < workers * 2:
                    kind, args = pending.pop(0)
                    if time.time() - t_start > wall_cap or failures:
                        skipped += 1
                        continue
                    f = ex.submit(hyp_job if kind == "hyp" else stat_job, *args)
                    futs[f] = (kind, args)
                if not futs:
                    break
                done, _ = cf.wait(list(futs), return_when=cf.FIRST_COMPLETED)
                for f in done:
                    kind, args = futs.pop(f)
                    try:
                        r = f.result()
                    except BaseException as e:  # noqa  (worker died: time-out or crash)
                        herrors.append("worker failed on %s job %r: %s: %s" % (kind, args[1:3], type(e).__name__, e))
                        open(_STOP_FLAG, "w").close()
                        continue
                    total.evaluations += r["evaluations"]
                    total.nontrivial.update(r["nontrivial"])
                    total.digests.update(r["digests"])
                    total.shapes.update(r["shapes"])
                    total.stats.update(r["stats"])
                    total.sim_seconds += r["sim_seconds"]
                    total.exec_seconds += r["exec_seconds"]
                    total.samples.extend(r["samples"])
                    for k, v in r["known"].items():
                        total.known.setdefault(k, v)
                    if r["failure"]:
                        failures.append(r["failure"])
                        open(_STOP_FLAG, "w").close()
                    if r["harness_error"]:
                        herrors.append(r["harness_error"])
                        open(_STOP_FLAG, "w").close()
        except BrokenPipeError:
            pass
    if os.path.exists(_STOP_FLAG):
        os.remove(_STOP_FLAG)

    # ---- report
    # one line per finding listed for this property (observed in this run or not); nothing is ever
    # added to the findings file at run time
    known_all = load_known()
    for ent in known_all:
        if ent.get("property") != prop:
            continue
        kid = ent["id"]
        seen = ("observed in this run: " + str(total.known[kid])[:200]) if kid in total.known else \
            "not reached by this run's scenarios / sample sizes"
        print("KNOWN-FINDING: property=%s %s: %s [%s]" % (prop, kid, ent.get("what_fails", ""), seen), file=out)

    exit_code = 0
    n_viol = 0
    seen_inv = set()
    for fl in failures:
        inv = fl["violation"]["invariant"]
        if inv in seen_inv:
            continue
        seen_inv.add(inv)
        path = write_replay(prop, fl, seed, tier)
        ok, rout = verify_replay(prop, path)
        if ok:
            n_viol += 1
            print("violation: %s :: %s" % (inv, str(fl["violation"].get("detail"))[:600]), file=out)
            print("VIOLATION property=%s replay=%s" % (prop, path), file=out)
            exit_code = 1
        else:
            herrors.append("failure did not reproduce from replay file %s (invariant %s):\n%s" % (path, inv, rout[-1500:]))
    if herrors and exit_code == 0:
        exit_code = 2
    for h in herrors:
        print("HARNESS-ERROR property=%s %s" % (prop, h), file=out)

    wall = time.time() - t_start
    if exit_code != 2:
        write_evidence(mod, prop, tier, seed, total, wall, n_viol, workers, skipped, len(jobs))
    print("property=%s tier=%s evaluations=%d distinct_nontrivial=%d distinct_digests=%d sim_seconds=%.1f wall=%.1fs exit=%d"
          % (prop, tier, total.evaluations, len(total.nontrivial), len(total.digests), total.sim_seconds, wall, exit_code),
          file=out, flush=True)
    return exit_code


def write_replay(prop, failure, seed, tier):
    os.makedirs(os.path.join(OUT, "replays"), exist_ok=True)
    body = dict(property=prop, verif_seed=seed, tier=tier, invariant=failure["violation"]["invariant"],
                violation=failure["violation"])
    if "scenario" in failure:
        body["scenario"] = failure["scenario"]
        body["hyp_seed"] = failure.get("hyp_seed")
    else:
        body["job"] = failure["job"]
    d = digest({k: body[k] for k in body if k not in ("violation",)})
    path = os.path.join(OUT, "replays", "%s-%s.json" % (prop, d))
    with open(path, "w") as f:
        f.write(json.dumps(body, indent=1, sort_keys=True, default=_jdefault))
    return path


def verify_replay(prop, path):
    """Replay in a fresh interpreter under another PYTHONHASHSEED; must fail the same way."""
    env = dict(os.environ)
    env["PYTHONHASHSEED"] = "12345"
    try:
        p = subprocess.run([PY, os.path.join(VERIF, "simkit", "main.py"), prop, "--replay", path],
                           env=env, capture_output=True, text=True, timeout=900)
    except subprocess.TimeoutExpired:
        return False, "replay timed out"
    return p.returncode == 1 and "REPRODUCED" in p.stdout, p.stdout + p.stderr


def replay(modname, path, out=sys.stdout):
    from . import seams

    seams.import_inference()
    mod = importlib.import_module(modname)
    with open(path) as f:
        body = json.load(f)
    known = load_known()
    if "scenario" in body:
        res = mod.execute(body["scenario"])
    else:
        res = mod.run_job(body["job"])
    real, kn = _split_known(mod.PROPERTY, res, known)
    hit = [v for v in real if v["invariant"] == body["invariant"]]
    for v in real:
        print("violation: %s :: %s" % (v["invariant"], str(v.get("detail"))[:1500]), file=out)
    if res.get("trace"):
        print("trace (last events):", file=out)
        for e in res["trace"][-40:]:
            print("   ", e, file=out)
    if hit:
        print("REPRODUCED invariant=%s" % body["invariant"], file=out)
        print("VIOLATION property=%s replay=%s" % (mod.PROPERTY, path), file=out)
        return 1
    print("not reproduced (invariant %s); violations seen: %s" % (body["invariant"], [v["invariant"] for v in real]), file=out)
    return 0


def write_evidence(mod, prop, tier, seed, total, wall, n_viol, workers, skipped, njobs):
    desc = mod.describe()
    stats = dict(total.stats)
    faults = {k: v for k, v in stats.items() if k.startswith("fault_")}
    probes = {k: v for k, v in stats.items() if k.startswith("probe_")}
    other = {k: v for k, v in stats.items() if not k.startswith(("fault_", "probe_"))}
    ev = dict(
        property_id=prop, tier=tier, seed=int(seed), level=getattr(mod, "LEVEL", "exploration"),
        coverage=dict(
            evaluations=int(total.evaluations),
            distinct_nontrivial=int(len(total.nontrivial)),
            rule=desc["rule"],
            samples=sorted(total.samples, key=digest)[:3],
            distinct_event_log_digests=len(total.digests),
            distinct_history_shapes=len(total.shapes),
            simulated_seconds=round(total.sim_seconds, 3),
            runs_per_hour=int(total.evaluations / max(wall, 1e-9) * 3600),
            fault_kinds_fired=faults,
            probes=probes,
            counters=other,
            real_vs_stub=desc.get("real_vs_stub", {}),
            workers=workers, jobs=njobs, jobs_skipped_by_wall_cap=skipped,
            known_findings_reported=sorted(total.known),
        ),
        assumptions=desc.get("assumptions", []),
        wall_s=round(wall, 2),
        violations=int(n_viol),
    )
    os.makedirs(os.path.join(OUT, "evidence"), exist_ok=True)
    p = os.path.join(OUT, "evidence", "%s.json" % prop)
    with open(p, "w") as f:
        f.write(json.dumps(ev, indent=1, sort_keys=True, default=_jdefault))


MODULES = {
    "C01": "checks.c01", "C03": "checks.c03", "C04": "checks.c04", "C08": "checks.c08",
    "C09": "checks.c09", "C14": "checks.c14", "C15": "checks.c15", "C18": "checks.c18",
}


def main(argv=None):
    ap = argparse.ArgumentParser()
    ap.add_argument("property")
    ap.add_argument("--tier", default=os.environ.get("VERIF_TIER", "quick"))
    ap.add_argument("--seed", type=int, default=int(os.environ.get("VERIF_SEED", "0") or 0))
    ap.add_argument("--replay")
    ap.add_argument("--workers", type=int, default=None)
    a = ap.parse_args(argv)
    if a.property not in MODULES:
        print("unknown property %s" % a.property)
        return 2
    if a.tier not in ("quick", "thorough"):
        a.tier = "quick"
    if a.replay:
        return replay(MODULES[a.property], a.replay)
    return run_check(MODULES[a.property], a.tier, a.seed, a.workers)
