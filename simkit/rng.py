"""Random-stream seam: recording / scripted stand-ins for numpy.random.Generator.

`RecordingGenerator` is a picklable proxy around a real Generator(PCG64).  Every call is
forwarded and (when recording is on) appended to the run's log under the generator's
name, stamped with the run-global event number shared with the posterior log, so the
recorded history is one total order.

Injected faults are *pure functions of the underlying draw* (no second PRNG), so a
generator whose bit-generator state is copied to another object injects the same
faults there - needed for the crash/restart comparison (C09) and for replay.
"""
import math

import numpy as np
from numpy.random import Generator, PCG64

from . import ctx as _ctx

_REAL_DEFAULT_RNG = np.random.default_rng


def _frac_hash(x):
    """Deterministic pseudo-uniform in [0,1) derived from a float draw."""
    m, _ = math.frexp(abs(float(x)) + 1e-300)
    v = m * 1048576.0
    v = (v - math.floor(v)) * 4096.0
    return v - math.floor(v)


def _summ(a):
    if isinstance(a, np.ndarray):
        return a.copy() if a.size <= 64 else ("ndarray", a.shape)
    return a


class RecordingGenerator:
    def __init__(self, seed_seq=None, name=None, _state=None):
        c = _ctx.get()
        if name is None:
            if c is not None:
                name = "g%d" % c.n_gen
                c.n_gen += 1
            else:
                name = "g?"
        self.name = name
        if _state is not None:
            self._g = Generator(PCG64())
            self._g.bit_generator.state = _state
        else:
            self._g = Generator(PCG64(seed_seq))

    # -- pickling keeps name + stream position; the log lives in the run context
    def __reduce__(self):
        return (_rebuild, (self.name, self._g.bit_generator.state))

    def __deepcopy__(self, memo):
        return _rebuild(self.name, self._g.bit_generator.state)

    @property
    def bit_generator(self):
        return self._g.bit_generator

    def _rec(self, method, args, res):
        c = _ctx.get()
        if c is not None and c.record:
            c.rng_logs.setdefault(self.name, []).append((c.next_seq(), method, args, _summ(res)))
        return res

    # -- the calls the samplers make, with fault injection
    def normal(self, loc=0.0, scale=1.0, size=None):
        z = self._g.standard_normal(size=size)
        c = _ctx.get()
        if c is not None and c.faults["tail_p"] > 0:
            if size is None:
                h = _frac_hash(z)
                if h < c.faults["tail_p"]:
                    z = z * 10.0 ** (1 + int(h / c.faults["tail_p"] * 12))
                    if z == 0.0:
                        z = 1e3
                    c.stats["fault_tail_draw"] += 1
            else:
                zf = np.asarray(z).reshape(-1)
                for k in range(zf.size):
                    h = _frac_hash(zf[k])
                    if h < c.faults["tail_p"]:
                        zf[k] = zf[k] * 10.0 ** (1 + int(h / c.faults["tail_p"] * 12))
                        c.stats["fault_tail_draw"] += 1
        # numpy's Generator.normal converts loc and scale to C doubles before using them: a float32 loc must not turn the
        # arithmetic into float32 here (python-float z is a "weak" scalar under NEP 50)
        loc_ = float(loc) if np.ndim(loc) == 0 else np.asarray(loc, dtype=float)
        scale_ = float(scale) if np.ndim(scale) == 0 else np.asarray(scale, dtype=float)
        res = loc_ + scale_ * z
        return self._rec("normal", (_summ(loc), _summ(scale), size), res)

    def standard_normal(self, size=None, dtype=np.float64, out=None):
        if out is not None:
            out[...] = self.normal(0.0, 1.0, out.shape)
            return out
        res = self.normal(0.0, 1.0, size)
        return res if dtype in (np.float64, float, "d", "float64") else np.asarray(res, dtype=dtype)

    def random(self, size=None, dtype=np.float64, out=None):
        u = self._g.random(size=size, dtype=dtype, out=out)
        c = _ctx.get()
        if c is not None and c.faults["edge_u_p"] > 0 and size is None:
            h = _frac_hash(u + 0.37)
            if h < c.faults["edge_u_p"]:
                u = (1.0 - 2.0 ** -53) if h < 0.5 * c.faults["edge_u_p"] else 1e-300
                c.stats["fault_edge_uniform"] += 1
        return self._rec("random", (size,), u)

    def uniform(self, low=0.0, high=1.0, size=None):
        res = self._g.uniform(low, high, size)
        return self._rec("uniform", (_summ(low), _summ(high), size), res)

    def integers(self, low, high=None, size=None, *a, **k):
        res = self._g.integers(low, high, size=size, *a, **k)
        return self._rec("integers", (low, high, size), res)

    def shuffle(self, x, *a, **k):
        self._g.shuffle(x, *a, **k)
        self._rec("shuffle", (len(x),), np.array(x))

    def permutation(self, x, *a, **k):
        return self._rec("permutation", (_summ(x),), self._g.permutation(x, *a, **k))

    def choice(self, a, *args, **k):
        return self._rec("choice", (_summ(a),), self._g.choice(a, *args, **k))

    def exponential(self, scale=1.0, size=None):
        return self._rec("exponential", (_summ(scale), size), self._g.exponential(scale, size))

    def __getattr__(self, item):
        # anything else: forward and record generically
        if item.startswith("__") or item == "_g":
            raise AttributeError(item)
        f = getattr(self._g, item)
        if not callable(f):
            return f

        def call(*a, **k):
            return self._rec(item, tuple(_summ(x) for x in a), f(*a, **k))

        return call


def _rebuild(name, state):
    return RecordingGenerator(name=name, _state=state)


class ScriptedGenerator:
    """Plays back a fixed list of draws (standard normals / uniforms); used to probe
    black-box maps such as `mass.sample_momentum` with unit vectors, and for mirror replay."""

    def __init__(self, normals=(), uniforms=()):
        self.normals = list(normals)
        self.uniforms = list(uniforms)

    def _take(self, store, size):
        if size is None:
            return store.pop(0)
        n = int(np.prod(size))
        out = np.array([store.pop(0) for _ in range(n)], dtype=float)
        return out.reshape(size)

    def normal(self, loc=0.0, scale=1.0, size=None):
        loc_ = float(loc) if np.ndim(loc) == 0 else np.asarray(loc, dtype=float)
        scale_ = float(scale) if np.ndim(scale) == 0 else np.asarray(scale, dtype=float)
        return loc_ + scale_ * self._take(self.normals, size)

    def standard_normal(self, size=None, *a, **k):
        return self._take(self.normals, size)

    def random(self, size=None, *a, **k):
        return self._take(self.uniforms, size)


def default_rng_factory(seed=None):
    """Replacement for numpy.random.default_rng while a run is active."""
    c = _ctx.get()
    if c is None:
        return _REAL_DEFAULT_RNG(seed)
    if seed is not None:
        return RecordingGenerator(seed_seq=seed)
    if c.namespace is not None:
        label, group = c.namespace
        i = c.ns_count.get(label, 0)
        c.ns_count[label] = i + 1
        return RecordingGenerator(seed_seq=c.child_seed(2, int(group), i), name="%s.g%d" % (label, i))
    k = c.n_gen
    return RecordingGenerator(seed_seq=c.child_seed(1, k))


def find_generators(obj, _path="", _seen=None, _depth=0):
    """All RecordingGenerator objects reachable from obj through attributes / lists /
    tuples / dicts, keyed by access path (used to synchronise generator state)."""
    out = {}
    if _seen is None:
        _seen = set()
    if id(obj) in _seen or _depth > 6:
        return out
    _seen.add(id(obj))
    if isinstance(obj, RecordingGenerator):
        out[_path] = obj
        return out
    if isinstance(obj, (str, bytes, int, float, complex, np.ndarray, np.generic, type(None))):
        return out
    if isinstance(obj, (list, tuple)):
        if len(obj) > 0 and isinstance(obj[0], (int, float, np.generic, np.ndarray)):
            return out
        for i, v in enumerate(obj[:256]):
            out.update(find_generators(v, "%s[%d]" % (_path, i), _seen, _depth + 1))
        return out
    if isinstance(obj, dict):
        for k2 in sorted(obj, key=repr):
            out.update(find_generators(obj[k2], "%s[%r]" % (_path, k2), _seen, _depth + 1))
        return out
    d = getattr(obj, "__dict__", None)
    if isinstance(d, dict):
        for k2 in sorted(d):
            v = d[k2]
            if callable(v) and not hasattr(v, "__dict__"):
                continue
            out.update(find_generators(v, "%s.%s" % (_path, k2), _seen, _depth + 1))
    return out


def sync_generators(dst_obj, src_obj):
    """Give every generator in dst_obj the stream position of the generator found under
    the same access path in src_obj.  Returns (n_synced, unmatched_dst, unmatched_src)."""
    d = find_generators(dst_obj)
    s = find_generators(src_obj)
    n = 0
    for path, g in d.items():
        if path in s:
            g.bit_generator.state = s[path].bit_generator.state
            n += 1
    return n, sorted(set(d) - set(s)), sorted(set(s) - set(d))
