"""Single entry point (avoids `python -m` double import)."""
import os
import sys

sys.path.insert(0, os.path.dirname(os.path.dirname(os.path.abspath(__file__))))
sys.setrecursionlimit(10000)
import warnings  # noqa: E402

warnings.simplefilter("ignore")

from simkit import driver  # noqa: E402

if __name__ == "__main__":
    sys.exit(driver.main())
