"""Construct real sampler objects from plain-data specs (must be called with Seams active
so that every generator the constructors create is a RecordingGenerator)."""
import numpy as np

from .targets import GradOf


def classes():
    from inference.mcmc import GibbsChain, PcaChain, HamiltonianChain, EnsembleSampler
    from inference.mcmc.gibbs import MetropolisChain

    return dict(gibbs=GibbsChain, metropolis=MetropolisChain, pca=PcaChain, hmc=HamiltonianChain,
                ensemble=EnsembleSampler)


def _set(obj, name, value):
    """Set a public tuning knob if the object has it (refactor-tolerant)."""
    if obj is not None and hasattr(obj, name):
        setattr(obj, name, value)
        return True
    return False


def build_chain(spec, target, start, bounds_obj=None, widths=None):
    """spec keys: kind, T, display, widths (list) / epsilon, bounds ([lo],[hi]) or None,
    knobs: dict(chk_int, max_tries, dir_update_interval, steps, es_chk_int, max_attempts,
    inverse_mass, finite_diff, alpha)."""
    C = classes()
    kind = spec["kind"]
    T = float(spec.get("T", 1.0))
    display = bool(spec.get("display", True))
    knobs = spec.get("knobs") or {}
    bounds = bounds_obj
    if bounds is None and spec.get("bounds") is not None:
        bounds = (np.array(spec["bounds"][0], dtype=float), np.array(spec["bounds"][1], dtype=float))
    # documented order of the leading parameters: (posterior, start / starting_positions, ...)
    lead = ((target, start), {}) if spec.get("arg_form") == "positional" else \
        ((), {"posterior": target, ("starting_positions" if kind == "ensemble" else "start"): start})
    if kind in ("gibbs", "metropolis"):
        w = widths if widths is not None else np.array(spec["widths"], dtype=float)
        c = C[kind](*lead[0], widths=w, temperature=T, display_progress=display, **lead[1])
    elif kind == "pca":
        w = widths if widths is not None else np.array(spec["widths"], dtype=float)
        c = C[kind](*lead[0], widths=w, temperature=T, display_progress=display,
                    bounds=bounds, **lead[1])
        if "dir_update_interval" in knobs:
            _set(c, "dir_update_interval", int(knobs["dir_update_interval"]))
            _set(c, "next_update", int(knobs["dir_update_interval"]))
    elif kind == "hmc":
        im = knobs.get("inverse_mass")
        if im is not None:
            im = np.array(im, dtype=float) if not np.isscalar(im) else float(im)
        grad = None if knobs.get("finite_diff") else GradOf(target)
        c = C[kind](*lead[0], grad=grad, epsilon=float(spec.get("epsilon", 0.1)),
                    temperature=T, bounds=bounds, inverse_mass=im, display_progress=display, **lead[1])
        _set(c, "steps", int(knobs.get("steps", 5)))
        if "es_chk_int" in knobs:
            _set(getattr(c, "ES", None), "chk_int", int(knobs["es_chk_int"]))
        if "max_attempts" in knobs:
            _set(c, "max_attempts", int(knobs["max_attempts"]))
    elif kind == "ensemble":
        c = C[kind](*lead[0], alpha=float(knobs.get("alpha", 2.0)),
                    bounds=bounds, display_progress=display, **lead[1])
        if "max_attempts" in knobs:
            _set(c, "max_attempts", int(knobs["max_attempts"]))
    else:
        raise ValueError(kind)
    if kind in ("gibbs", "metropolis", "pca"):
        for p in getattr(c, "params", []):
            if "chk_int" in knobs:
                _set(p, "chk_int", int(knobs["chk_int"]))
            if "max_tries" in knobs:
                _set(p, "max_tries", int(knobs["max_tries"]))
    return c


def load_chain(kind, filename, target, finite_diff=False):
    C = classes()
    if kind == "hmc":
        return C[kind].load(filename, posterior=target, grad=None if finite_diff else GradOf(target))
    return C[kind].load(filename, posterior=target)
