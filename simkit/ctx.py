"""Per-run context: the single global event counter, logs, fault switches, seed tree.

One RunCtx per simulated run.  Everything a run's outcome depends on is derived from
`seed` (an int) and the scenario data; logging never draws randomness.
"""
import collections

import numpy as np


class RunCtx:
    def __init__(self, seed, faults=None, record=True):
        self.seed = int(seed)
        self.seq = 0
        self.record = record
        self.rng_logs = {}  # generator name -> list of (seq, method, args, result)
        self.post_logs = {}  # target tag -> list of (seq, kind, theta, value)
        self.n_gen = 0
        self.namespace = None  # (label, seed_group): names/seeds of generators created next
        self.ns_count = {}
        self.faults = dict(tail_p=0.0, edge_u_p=0.0)
        if faults:
            self.faults.update(faults)
        self.stats = collections.Counter()
        self.sim = None  # kernel.Sim when a process simulation is active
        self.clock = None  # seams.FakeClock for single-process timed runs
        self.cores = None  # simulated number of CPU cores (None = the real one)
        self.eval_cost = 0.0  # simulated seconds charged per posterior evaluation
        self.grad_cost = 0.0
        self.eval_budget = None  # evaluations left for the operation in progress (None = unlimited)
        self.eval_budgets = {}  # the same, per target tag (samplers that run interleaved in kernel tasks)
        self.eval_stalls = {}  # evaluation number -> cost multiplier (injected slow step)
        self.eval_failures = {}  # target tag -> number of posterior evaluations until the posterior raises InjectedFailure
        self.monitors = []  # callables(kind, tag, theta) invoked at every evaluation

    def next_seq(self):
        self.seq += 1
        return self.seq

    def child_seed(self, *path):
        return np.random.SeedSequence([self.seed & 0xFFFFFFFF, (self.seed >> 32) & 0xFFFFFFFF, *path])


class Runaway(Exception):
    """An operation used up its evaluation budget without completing (liveness guard)."""


class InjectedFailure(Exception):
    """Injected fault: the user's posterior raised (a domain error, an interrupt) in the middle of an operation."""


class InjectedInterrupt(KeyboardInterrupt):
    """Injected fault: the user interrupts a long operation (Ctrl-C arrives while the posterior is being evaluated);
    not an `Exception`, so `except Exception` clean-up code in the library does not see it."""


class StepExhausted(Exception):
    """HamiltonianChain's documented 'failed to take step' error: legitimate end of a history."""


CTX = None


def new_run(seed, faults=None, record=True):
    global CTX
    CTX = RunCtx(seed, faults, record)
    return CTX


def get():
    return CTX
