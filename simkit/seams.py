"""Seam installer: put every source of nondeterminism the properties depend on behind
the simulator, without any hook in /repo.

Generic, freezegun-style: for every loaded module under `inference.*` each attribute that
*is* one of the original objects (time.time, multiprocessing.Process/Pipe/Event/Pool,
numpy.random.default_rng) is replaced; the originals are also patched at their home with
a dispatcher that only redirects callers located inside `inference.*` (so a refactor from
`from time import time` to `import time` keeps the seam, and the harness, numpy, scipy,
hypothesis and threading keep the real thing).  Trip-wires abort the run as a *harness
error* if inference code reaches for concurrency the simulator does not own.
"""
import contextlib
import importlib
import io
import multiprocessing
import math
import os
import random
import sys
import threading
import time as _time

import numpy as np

from . import ctx as _ctx
from . import rng as _rng


class UnseamedNondeterminism(Exception):
    """inference.* used a concurrency / entropy source the simulator does not control."""


def repo_path():
    return os.environ.get("VERIF_REPO", "/repo")


def import_inference():
    """Import the package from the working tree named by VERIF_REPO (default /repo)."""
    rp = repo_path()
    if sys.path[0] != rp:
        sys.path.insert(0, rp)
    import matplotlib

    matplotlib.use("Agg")
    mods = ["inference", "inference.mcmc", "inference.mcmc.base", "inference.mcmc.gibbs",
            "inference.mcmc.pca", "inference.mcmc.hmc", "inference.mcmc.ensemble",
            "inference.mcmc.parallel", "inference.mcmc.utilities", "inference.gp", "inference.gp.regression",
            "inference.gp.optimisation", "inference.gp.acquisition", "inference.pdf", "inference.plotting"]
    for m in mods:
        importlib.import_module(m)
    inf = sys.modules["inference"]
    f = os.path.realpath(inf.__file__)
    if not f.startswith(os.path.realpath(rp) + os.sep):
        raise RuntimeError("inference imported from %s, expected under %s" % (f, rp))
    return inf


_REAL = dict(
    cpu_count=multiprocessing.cpu_count,
    os_cpu_count=os.cpu_count,
    time=_time.time,
    default_rng=np.random.default_rng,
    Process=multiprocessing.Process,
    Pipe=multiprocessing.Pipe,
    Event=multiprocessing.Event,
    Pool=multiprocessing.Pool,
)


def _caller_in_inference(depth=2):
    f = sys._getframe(depth)
    name = f.f_globals.get("__name__", "")
    return name == "inference" or name.startswith("inference.")


def _inference_modules():
    return [m for n, m in list(sys.modules.items())
            if m is not None and (n == "inference" or n.startswith("inference."))]


class Seams:
    """Context manager installing replacements for the duration of one run."""

    def __init__(self, sim=None, mp=None, clock=None, quiet=True, tripwires=True, sync_pool=False):
        self.sim, self.mp, self.clock, self.quiet = sim, mp, clock, quiet
        self.tripwires = tripwires
        self.sync_pool = sync_pool
        self._undo = []

    def _set(self, obj, name, value):
        old = getattr(obj, name)
        setattr(obj, name, value)
        self._undo.append((obj, name, old))

    def __enter__(self):
        repl = {id(_REAL["default_rng"]): _rng.default_rng_factory}

        # the number of cores is part of the environment the simulator owns
        def sim_cpu_count():
            c = _ctx.get()
            n = getattr(c, "cores", None) if c is not None else None
            return int(n) if n else _REAL["cpu_count"]()

        repl[id(_REAL["cpu_count"])] = sim_cpu_count
        repl[id(_REAL["os_cpu_count"])] = sim_cpu_count
        time_fn = None
        if self.clock is not None:
            time_fn = self.clock
        elif self.sim is not None:
            time_fn = self.sim.time
        if time_fn is not None:
            repl[id(_REAL["time"])] = time_fn
        if self.mp is not None:
            repl[id(_REAL["Process"])] = self.mp.Process
            repl[id(_REAL["Pipe"])] = self.mp.Pipe
            repl[id(_REAL["Event"])] = self.mp.Event
            repl[id(_REAL["Pool"])] = self.mp.Pool
        elif self.tripwires:
            def _no_mp(*a, **k):
                raise UnseamedNondeterminism("multiprocessing used outside a process simulation")
            for k in ("Process", "Pipe", "Event", "Pool"):
                repl[id(_REAL[k])] = _no_mp
            if self.sync_pool:
                repl[id(_REAL["Pool"])] = SyncPool
        for m in _inference_modules():
            for name, val in list(vars(m).items()):
                r = repl.get(id(val))
                if r is not None:
                    self._set(m, name, r)

        # home patches: redirect only callers that live in inference.*
        def home(real, sub):
            def dispatch(*a, **k):
                if _caller_in_inference():
                    return sub(*a, **k)
                return real(*a, **k)
            return dispatch

        self._set(np.random, "default_rng", home(_REAL["default_rng"], _rng.default_rng_factory))
        self._set(multiprocessing, "cpu_count", home(_REAL["cpu_count"], sim_cpu_count))
        self._set(os, "cpu_count", home(_REAL["os_cpu_count"], sim_cpu_count))
        if time_fn is not None:
            self._set(_time, "time", home(_REAL["time"], time_fn))
        if self.mp is not None:
            for k in ("Process", "Pipe", "Event", "Pool"):
                self._set(multiprocessing, k, home(_REAL[k], getattr(self.mp, k)))
        elif self.sync_pool:
            self._set(multiprocessing, "Pool", home(_REAL["Pool"], SyncPool))

        if self.tripwires:
            real_thread_start = threading.Thread.start

            def guarded_start(th, *a, **k):
                if _caller_in_inference():
                    raise UnseamedNondeterminism("threading.Thread started from inference.*")
                return real_thread_start(th, *a, **k)

            self._set(threading.Thread, "start", guarded_start)
            real_fork = os.fork

            def guarded_fork():
                if _caller_in_inference():
                    raise UnseamedNondeterminism("os.fork called from inference.*")
                return real_fork()

            self._set(os, "fork", guarded_fork)

        if self.quiet:
            self._stdout = sys.stdout
            sys.stdout = io.StringIO()
        return self

    def __exit__(self, *exc):
        if self.quiet:
            sys.stdout = self._stdout
        for obj, name, old in reversed(self._undo):
            setattr(obj, name, old)
        self._undo.clear()
        return False


def seed_global_streams(seed):
    """The legacy global numpy stream and the random module are process-global entropy
    sources (used by tight_pairs' `choice`, get_interval's `permutation`, the GP code's
    `random`, SciPy's differential evolution): own them by seeding."""
    ss = np.random.SeedSequence([int(seed) & 0xFFFFFFFF, (int(seed) >> 32) & 0xFFFFFFFF, 77])
    a, b = ss.generate_state(2)
    np.random.seed(int(a))
    random.seed(int(b))


class SyncPool:
    """multiprocessing.Pool stand-in for code whose use of the pool carries no scheduling
    property (GP multi-start optimisation): jobs and results are pickled like the real thing and
    run one after the other in submission order."""

    def __init__(self, processes=None, initializer=None, initargs=(), *a, **k):
        import pickle

        self.processes = processes
        c = _ctx.get()
        if c is not None:
            c.stats["probe_pool_created"] += 1
        if initializer is not None:
            # every real worker runs the initializer once, at start-up, on its own (pickled) copy of the arguments;
            # the simulated workers share one address space (documented fidelity gap), so it runs once
            f, args = pickle.loads(pickle.dumps((initializer, tuple(initargs))))
            f(*args)
            if c is not None:
                c.stats["probe_pool_initializer_run"] += 1

    def map(self, func, iterable, chunksize=None):
        import pickle

        out = []
        for it in list(iterable):
            f, x = pickle.loads(pickle.dumps((func, it)))
            out.append(pickle.loads(pickle.dumps(f(x))))
        return out

    def close(self):
        pass

    terminate = join = close

    def __enter__(self):
        return self

    def __exit__(self, *a):
        return False


class BusyWait(Exception):
    """The code under test keeps reading the clock without doing any work."""


class FakeClock:
    """Simulated wall clock for single-process (E1) runs: reading it costs a tick,
    posterior evaluations advance it (see targets.Target).  Records the history of
    readings and evaluations that the timed-run oracles of C15 need."""

    EPOCH = 1.7e9

    def __init__(self, tick=1e-6, resolution=0.0):
        self.now = 0.0
        self.tick = tick
        # fault "coarse clock": the value the program reads only changes every `resolution` seconds (time.time() on
        # Windows before Python 3.13 moves in steps of about 15.6 ms), so two readings can be equal
        self.resolution = float(resolution or 0.0)
        self.shown = 0.0
        self.reads = 0
        self.jump_schedule = []  # list of (at_read_number, dt)
        # --- timed-run bookkeeping (armed by the harness around run_for)
        self.armed = False
        self.deadline = None
        self.first_read = None
        self.reads_since_eval = 0
        self.max_idle_reads = 1000
        self.evals_in_batch = 0
        self.max_batch_evals = 0
        self.batches = 0
        self.deadline_seen = False
        self.evals_after_deadline = 0
        self.idle_reads_max_seen = 0

    def arm(self, budget_seconds):
        self.armed = True
        self.first_read = None
        self.budget = budget_seconds
        self.deadline = None
        self.reads_since_eval = 0
        self.evals_in_batch = 0
        self.max_batch_evals = 0
        self.batches = 0
        self.deadline_seen = False
        self.evals_after_deadline = 0

    def disarm(self):
        self.armed = False

    def __call__(self):
        self.reads += 1
        self.now += self.tick
        while self.jump_schedule and self.jump_schedule[0][0] <= self.reads:
            _, dt = self.jump_schedule.pop(0)
            self.now += dt
            c = _ctx.get()
            if c is not None:
                c.stats["fault_clock_jump"] += 1
        shown = self.now
        if self.resolution > 0:
            shown = math.floor(self.now / self.resolution) * self.resolution
            if shown == self.shown and self.reads > 1:
                c = _ctx.get()
                if c is not None:
                    c.stats["fault_coarse_clock_equal_readings"] += 1
        self.shown = shown
        if self.armed:
            if self.first_read is None:
                self.first_read = shown
                self.deadline = shown + self.budget
            if self.evals_in_batch > 0:
                if not self.deadline_seen:
                    self.max_batch_evals = max(self.max_batch_evals, self.evals_in_batch)
                self.batches += 1
                self.evals_in_batch = 0
            if shown >= self.deadline:
                self.deadline_seen = True
            self.reads_since_eval += 1
            self.idle_reads_max_seen = max(self.idle_reads_max_seen, self.reads_since_eval)
            if self.reads_since_eval > self.max_idle_reads and shown < self.deadline:
                raise BusyWait("%d consecutive clock readings without a posterior evaluation, %.3f s before the deadline"
                               % (self.reads_since_eval, self.deadline - shown))
        return self.EPOCH + shown

    def advance(self, dt):
        self.now += dt

    def note_eval(self):
        if self.armed:
            self.reads_since_eval = 0
            self.evals_in_batch += 1
            if self.deadline_seen:
                self.evals_after_deadline += 1
