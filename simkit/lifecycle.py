"""E1 lifecycle engine: real sampler objects driven through seeded operation histories
with the simulator owning the random streams, the clock and the scratch disk.

Shared by C03, C04, C09, C14, C15.  A *scenario* is plain JSON data; everything here is a
pure function of it.
"""
import collections
import os
import shutil
import tempfile

import numpy as np
from hypothesis import strategies as st

from . import build, ctx as rctx, oracles, seams, targets
from .oracles import LibRaised, lib_call

CHAIN_KINDS = ["gibbs", "metropolis", "pca", "hmc"]
ALL_KINDS = CHAIN_KINDS + ["ensemble"]


# ------------------------------------------------------------------ strategies
@st.composite
def sampler_config(draw, kinds=ALL_KINDS, bounds="maybe", max_d=4, temps=(1.0, 1.0, 2.0, 5.0, 32.0),
                   extreme=False, gibbs_limits=True):
    kind = draw(st.sampled_from(kinds))
    d = draw(st.integers(1, max_d))
    big = max_d >= 3 and draw(st.integers(0, 11)) == 0
    if big:
        # beyond the sizes small examples reach: more parameters (and, below, more walkers)
        # (beyond 9: two-digit parameter indices - 'param_10' sorts before 'param_2' as a string)
        d = draw(st.sampled_from([5, 6, 7, 8, 9, 9, 11, 12, 13, 25]))
    T = 1.0 if kind == "ensemble" else draw(st.sampled_from(temps))
    can_bound = kind in ("pca", "hmc", "ensemble")
    bounded = can_bound and (bounds == "always" or (bounds == "maybe" and draw(st.integers(0, 2)) == 0))
    cfg = dict(kind=kind, d=d, T=T, seed=draw(st.integers(0, 2 ** 32 - 1)), display=draw(st.booleans()))
    if bounded:
        if extreme:
            centre = draw(st.sampled_from([0.0, 0.0, -3.0, 1e3, -1e6, 1e9]))
            width = draw(st.sampled_from([1e-6, 1e-3, 0.5, 1.0, 7.0, 1e3, 1e6]))
            width = max(width, abs(centre) * 1e-6)
        else:
            centre = draw(st.sampled_from([0.0, 0.0, 0.5, -3.0, 10.0]))
            width = draw(st.sampled_from([0.5, 1.0, 2.0, 6.0]))
        lo = [centre - width * draw(st.sampled_from([0.5, 0.3, 1.0])) for _ in range(d)]
        hi = [l + width for l in lo]
        tk = draw(st.sampled_from(["truncgauss", "truncgauss", "boxpower"]))
        if tk == "truncgauss":
            mu = [l + width * draw(st.sampled_from([0.5, 0.1, 0.95, 1.3])) for l in lo]
            cfg["target"] = dict(kind=tk, d=d, lo=lo, hi=hi, mu=mu, s=[width * draw(st.sampled_from([0.3, 1.0, 5.0]))] * d)
        else:
            cfg["target"] = dict(kind=tk, d=d, lo=lo, hi=hi, p=draw(st.sampled_from([0.0, 1.0, 2.0])))
        cfg["bounds"] = [lo, hi]
        cfg["bounds_as_object"] = draw(st.booleans())
        scale = width
    else:
        tk = draw(st.sampled_from(["gauss", "gauss", "laplace", "corrgauss", "moat", "banana"]))
        if tk in ("corrgauss", "banana") and d < 2:
            tk = "gauss"
        if tk == "banana" and (T != 1.0):
            tk = "gauss"
        cfg["target"] = dict(kind=tk, d=d)
        if tk == "gauss":
            cfg["target"]["mu"] = [draw(st.sampled_from([0.0, 0.0, 3.0, -20.0])) for _ in range(d)]
            cfg["target"]["s"] = [draw(st.sampled_from([1.0, 1.0, 0.1, 10.0, 1e-4])) for _ in range(d)]
        cfg["bounds"] = None
        scale = 1.0
    wf = draw(st.sampled_from([1.0, 1.0, 0.3, 3.0] + ([1e3, 1e6] if extreme else [])))
    cfg["widths"] = [scale * wf * draw(st.sampled_from([1.0, 0.5, 2.0])) for _ in range(d)]
    cfg["epsilon"] = scale * draw(st.sampled_from([0.05, 0.2, 0.5] + ([50.0, 1e4] if extreme else [])))
    knobs = dict(
        chk_int=draw(st.sampled_from([2, 3, 5, 10, 100])),
        max_tries=draw(st.sampled_from([2, 5, 50])),
        dir_update_interval=draw(st.sampled_from([3, 4, 7, 20, 100])),
        steps=draw(st.integers(1, 6)),
        es_chk_int=draw(st.sampled_from([2, 3, 15])),
        alpha=draw(st.sampled_from([2.0, 2.0, 1.3, 4.0])),
    )
    if kind == "hmc":
        mass = draw(st.sampled_from(["none", "none", "scalar", "vector", "matrix"]))
        if mass == "scalar":
            knobs["inverse_mass"] = draw(st.sampled_from([0.25, 4.0])) * scale ** 2
        elif mass == "vector":
            knobs["inverse_mass"] = [scale ** 2 * (1.0 + i) for i in range(d)]
        elif mass == "matrix":
            M = np.eye(d) * scale ** 2
            for i in range(d - 1):
                M[i, i + 1] = M[i + 1, i] = 0.3 * scale ** 2
            knobs["inverse_mass"] = M.tolist()
        knobs["finite_diff"] = draw(st.integers(0, 4)) == 0
    if kind == "ensemble":
        cfg["n_walkers"] = d + 1 + draw(st.integers(0, 4)) + (draw(st.sampled_from([0, 8, 20])) if big else 0)
        knobs["max_attempts"] = draw(st.sampled_from([1, 2, 100]))
    cfg["knobs"] = knobs
    if not bounded:
        # special inputs the properties still quantify over: integer-typed start values, a start
        # inside a zero-probability region
        special = draw(st.sampled_from(["none", "none", "none", "none", "int_start", "zero_prob_start"]))
        if special == "none" and cfg["target"]["kind"] == "moat" and kind != "ensemble" and d <= 3 and draw(st.booleans()):
            special = "zero_prob_start"  # (what the moat target is for: half of its chains start inside the moat)
        if special == "int_start" and cfg["target"]["kind"] in ("gauss", "laplace", "corrgauss"):
            cfg["int_start"] = True
        elif special == "zero_prob_start" and cfg["target"]["kind"] == "moat" and kind != "ensemble" and d <= 3:
            cfg["zero_prob_start"] = True
            # (with the adaptation out of reach - below - the widths must be usable as they are: a 9-parameter Metropolis
            # proposal of width 6 is never accepted, and a long advance then runs into the evaluation budget)
            cfg["widths"] = [min(float(w_), 1.0) for w_ in cfg["widths"]]
            # (the Gibbs-family constructor means to reject such a start but only builds the exception; a NaN
            # acceptance probability then poisons the width adaptation at its next check - keep that check out of
            # reach so that the unchanged library stays well-defined on these histories)
            knobs["chk_int"] = 10 ** 9
            knobs["max_tries"] = 10 ** 9
    # the representation of otherwise ordinary arguments (the properties quantify over inputs, not over float64 C arrays):
    # posterior / start passed positionally, float32 widths or start, start as a python list, a read-only, non-contiguous
    # or Fortran-ordered start array.  The unchanged library accepts all of these (ensemble: no lists).
    form = draw(st.sampled_from(["plain"] * 7 + ["positional", "f32_widths", "f32_start", "list_start", "readonly_start",
                                                 "noncontig_start", "fortran_start"]))
    if draw(st.integers(0, 5)) == 0:
        cfg["np_ints"] = True  # integer arguments (m, burn, thin, samples, index) passed as numpy integer scalars
    if form == "f32_start" and bounded:
        form = "plain"  # (rounding a start point to float32 can move it out of the box it was drawn in)
    if form != "plain" and not cfg.get("int_start") and not (form == "list_start" and kind == "ensemble"):
        cfg["arg_form"] = form
    if gibbs_limits and kind in ("gibbs", "metropolis") and draw(st.integers(0, 2)) == 0:
        # limits set on the chain right after construction (relative to the start point, applied by Harnessed)
        lim = []
        for i in range(d):
            w = draw(st.sampled_from(["none", "none", "nonneg", "bounds", "both"]))
            if w != "none":
                lim.append([w, i, draw(st.sampled_from([0.5, 2.0, 10.0])), draw(st.sampled_from([0.3, 0.5, 0.9]))])
        cfg["limits"] = lim
    return cfg


LONG_RUNS = [300, 500, 1000, 1024, 1500, 2500, 4200, 5000]


def maybe_long(draw, size, cfg, one_in=16, sizes=None):
    """Now and then a run far longer than the small sizes: internal buffers, growing check intervals, update
    schedules and histories pass points that short runs never reach (thousands of stored rows).  Sized by
    what a step of that sampler costs."""
    if draw(st.integers(0, one_in - 1)) != 0:
        return size
    m = draw(st.sampled_from(sizes or LONG_RUNS))
    kind = cfg["kind"]
    if kind == "hmc":
        m = min(m, 300 if cfg["knobs"].get("finite_diff") else 6600 // max(1, int(cfg["knobs"].get("steps", 6))))
    elif kind == "ensemble":
        m = max(40, -(-m // cfg.get("n_walkers", 4)))  # iterations: walkers x iterations rows
    elif kind in ("gibbs", "pca"):
        m = min(m, 15000 // cfg["d"])
    return m


def advance_sizes():
    return st.one_of(st.sampled_from([0, 1, 2, 3, 99, 100, 101, 199, 200, 201]), st.integers(0, 260), st.integers(0, 30))


# ------------------------------------------------------------------ construction
class Harnessed:
    """One real sampler together with what the harness knows about it."""

    def __init__(self, cfg, label, inputs=None, private=False, seed_group=None):
        self.cfg = cfg
        self.kind = cfg["kind"]
        self.label = label
        self.T = float(cfg["T"])
        self.d = cfg["target"]["d"]
        self.target = targets.make_target(cfg["target"], tag=label)
        if inputs is None:
            inputs = make_inputs(cfg)
        if private:
            inputs = {k: (v.copy() if isinstance(v, np.ndarray) else v) for k, v in inputs.items()}
            if inputs.get("bounds_obj") is not None:
                inputs["bounds_obj"] = _fresh_bounds(cfg)
        self.inputs = inputs
        c = rctx.get()
        self.seed_group = (cfg["seed"] & 0x7FFFFFFF) if seed_group is None else int(seed_group)
        c.namespace = (label, self.seed_group)
        try:
            self.chain = lib_call("constructor", build.build_chain, cfg, self.target, inputs["start"],
                                  bounds_obj=inputs.get("bounds_obj"), widths=inputs.get("widths"))
        finally:
            c.namespace = None
        self.is_ensemble = self.kind == "ensemble"
        self.n_walkers = cfg.get("n_walkers", 1)
        self.limits = {}  # parameter -> [lower, upper] set on the chain after construction
        self._bnd, self._nn = {}, set()
        for w, i, width, frac in cfg.get("limits") or []:
            x0 = float(np.asarray(inputs["start"], dtype=float)[i])
            cur = self.limits.setdefault(i, [-np.inf, np.inf])
            if w in ("bounds", "both"):
                lo = x0 - width * frac
                if w == "both":
                    lo = max(lo, -0.25 * width) if x0 >= 0 else lo
                lib_call("set_boundaries", self.chain.set_boundaries, i, (lo, lo + width))
                cur[0], cur[1] = max(cur[0], lo), min(cur[1], lo + width)
                self._bnd[i] = (lo, lo + width)
            if w in ("nonneg", "both") and x0 >= 0:
                lib_call("set_non_negative", self.chain.set_non_negative, i, True)
                cur[0] = max(cur[0], 0.0)
                self._nn.add(i)

    def foreign_point(self, pos):
        """A point handed to this chain by an exchange comes from a chain with the same limits: bring `pos`
        inside the limits set on this chain (a point outside them is not a state the sampler can be in - its
        reflected proposals would all be long jumps and the width adaptation collapses)."""
        pos = np.array(pos, dtype=float)
        for i, (lo, hi) in self.limits.items():
            if np.isfinite(hi) and np.isfinite(lo):
                if not lo <= pos[i] <= hi:
                    pos[i] = lo + (pos[i] - lo) % (hi - lo)
            elif np.isfinite(lo) and pos[i] < lo:
                pos[i] = lo + (lo - pos[i])
        return pos

    # ---- read-outs that work for every class (ensemble before first advance has none)
    def rows(self):
        if self.is_ensemble and self.length() == 0:
            return np.zeros((0, self.d)), np.zeros(0)
        S = lib_call("get_sample(burn=0)", self.chain.get_sample, burn=0, thin=1)
        P = lib_call("get_probabilities(burn=0)", self.chain.get_probabilities, burn=0, thin=1)
        # copies: some samplers hand out views of their storage
        return np.array(S, dtype=float, copy=True), np.array(P, dtype=float, copy=True)

    def length(self):
        return int(lib_call("chain_length", lambda: self.chain.chain_length))


def _fresh_bounds(cfg):
    from inference.mcmc import Bounds

    return Bounds(lower=np.array(cfg["bounds"][0], dtype=float), upper=np.array(cfg["bounds"][1], dtype=float))


def make_inputs(cfg):
    """The arrays a user would pass in (shared between the samplers of a group)."""
    c = rctx.get()
    g = np.random.Generator(np.random.PCG64(c.child_seed(5, cfg["seed"] & 0x7FFFFFFF)))
    tg = targets.make_target(cfg["target"], tag="_inputs")
    d = cfg["target"]["d"]
    out = {}
    if cfg["kind"] == "ensemble":
        n = cfg["n_walkers"]
        for _ in range(50):
            X = np.array([tg.draw(g, 1.0) for _ in range(n)])
            if d == 1:
                ok = X.var() > 0
            else:
                sd = X.std(axis=0)
                ok = (sd > 0).all() and (np.abs(np.triu(np.corrcoef(X.T), k=1)) < 0.99).all()
            if ok:
                break
        if cfg.get("int_start"):
            Xi = np.rint(3.0 * X).astype(np.int64)
            if d == 1:
                okc = np.unique(Xi).size > 1
            else:
                sd = Xi.std(axis=0)
                okc = (sd > 0).all() and (np.abs(np.triu(np.corrcoef(Xi.T), k=1)) < 0.99).all()
            if okc:
                X = Xi
        out["start"] = X
    else:
        x0 = tg.draw(g, 1.0)
        if cfg["bounds"] is None and cfg["target"]["kind"] not in ("gamma", "moat"):
            x0 = x0 + 0.0
        out["start"] = np.array(x0, dtype=float)
        if cfg.get("zero_prob_start"):
            out["start"][0] = 0.5 * (tg.a + tg.b)  # inside the moat: log-density -inf
        if cfg.get("int_start"):
            r = np.rint(out["start"]).astype(np.int64)
            r[r == 0] = 1  # (a zero start value makes the default widths / finite differences degenerate)
            out["start"] = r
    out["widths"] = np.array(cfg["widths"], dtype=float)
    form = cfg.get("arg_form")
    if form:
        x = out["start"]
        if form == "f32_widths":
            out["widths"] = out["widths"].astype(np.float32)
        elif form == "f32_start":
            out["start"] = x.astype(np.float32)
        elif form == "list_start":
            out["start"] = x.tolist()
        elif form == "readonly_start":
            x.flags.writeable = False
        elif form == "noncontig_start":
            big = np.zeros(x.shape + (2,), dtype=x.dtype)
            big[..., 0] = x
            out["start"] = big[..., 0]
        elif form == "fortran_start":
            out["start"] = np.asfortranarray(x)
        rctx.get().stats["fault_argument_form_" + form] += 1
    if cfg.get("bounds") is not None and cfg.get("bounds_as_object"):
        out["bounds_obj"] = _fresh_bounds(cfg)
    elif cfg.get("bounds") is not None:
        out["bounds_obj"] = (np.array(cfg["bounds"][0], dtype=float), np.array(cfg["bounds"][1], dtype=float))
    else:
        out["bounds_obj"] = None
    return out


def snapshot_inputs(inputs):
    snap = {}
    for k, v in inputs.items():
        if isinstance(v, np.ndarray):
            snap[k] = (v.shape, v.dtype.str, v.tobytes())
        elif isinstance(v, tuple):
            snap[k] = tuple((a.shape, a.dtype.str, a.tobytes()) for a in v)
        elif v is not None and hasattr(v, "lower"):
            snap[k] = tuple((np.asarray(a).shape, np.asarray(a).dtype.str, np.asarray(a).tobytes())
                            for a in (v.lower, v.upper, v.width))
    return snap


def inputs_changed(inputs, snap):
    now = snapshot_inputs(inputs)
    return [k for k in snap if snap[k] != now.get(k)]


# ------------------------------------------------------------------ operations
HMC_STEP_FAIL = "Failed to take step within maximum allowed attempts"


StepExhausted = rctx.StepExhausted


class StepSizeOverflow(StepExhausted):
    """The give-up error of a HamiltonianChain whose step size has overflowed to infinity (known finding F3, the
    step-size selector's variant of the proposal-width overflow): the chain can never step again."""


def _guard_hmc(fn, *a, **k):
    try:
        return fn(*a, **k)
    except ValueError as e:
        if HMC_STEP_FAIL in str(e):
            raise StepExhausted() from e
        raise


def _budgeted(h, n_steps, fn):
    """Run a stepping operation under an evaluation budget (50k + 5k per requested step for
    the first 100 steps, 500 per step beyond); exceeding it raises ctx.Runaway instead of hanging
    the harness.  The budget belongs to the sampler's own target (samplers may run interleaved
    in kernel tasks)."""
    c = rctx.get()
    n_steps = int(n_steps)
    c.eval_budgets[h.target.tag] = 50_000 + 5_000 * min(n_steps, 100) + 500 * max(0, n_steps - 100)
    try:
        return fn()
    finally:
        c.eval_budgets[h.target.tag] = None


def _dead_chain(h, op, e):
    """HamiltonianChain's give-up error is legitimate for a hopeless step size, but not when the
    tuning state itself has become NaN: such a chain can never take a step again.  A step size of
    +inf is the overflow of known finding F3 (every proposal accepted on a flat posterior inside
    reflecting bounds, the step size doubled at every check): reported as such."""
    eps = getattr(getattr(h.chain, "ES", None), "epsilon", None)
    try:
        bad = eps is not None and not np.isfinite(float(eps))
        overflow = bad and float(eps) == float("inf")
    except Exception:  # noqa
        bad = overflow = False
    if overflow:
        rctx.get().stats["probe_hmc_step_size_overflow"] += 1
        raise StepSizeOverflow() from e
    if bad:
        raise LibRaised(op, ValueError("the chain gave up ('%s') and its step size is now %r: no further step is possible"
                                       % (HMC_STEP_FAIL, eps))) from e
    raise e


def op_step(h):
    try:
        _budgeted(h, 1, lambda: lib_call("take_step", _guard_hmc, h.chain.take_step))
    except StepExhausted as e:
        _dead_chain(h, "take_step", e)


def op_advance(h, m):
    per = h.n_walkers if h.is_ensemble else 1
    if m * per >= 1000:
        rctx.get().stats["probe_single_run_of_1000_or_more_rows"] += 1
    if h.d >= 5:
        rctx.get().stats["probe_advance_with_5_or_more_parameters"] += 1
    try:
        # (numpy integer scalars are what `len()`-free code often holds: m = numpy.int64(...))
        m_arg = np.int64(m) if h.cfg.get("np_ints") else m
        _budgeted(h, m * per, lambda: lib_call("advance(%d)" % m, _guard_hmc, h.chain.advance, m_arg))
    except StepExhausted as e:
        _dead_chain(h, "advance(%d)" % m, e)


def runaway_violation(h, op, exc):
    """Classify an operation that never completed."""
    cause = "unknown"
    try:
        sig = [float(p.sigma) for p in getattr(h.chain, "params", [])]
        if sig and not all(np.isfinite(sig)):
            cause = "proposal_width_overflow"
    except Exception:  # noqa
        pass
    if cause == "unknown" and int(h.cfg.get("knobs", {}).get("chk_int", 0)) >= 10 ** 8:
        # the harness itself put the width adaptation out of reach (starts at log-density -inf): a sampler that cannot
        # adapt unusable widths is slow by construction, not by a defect
        return None
    return dict(invariant="op.runaway", key=dict(cause=cause, sampler=h.kind),
                detail="%s: %r did not complete within its evaluation budget (%s); cause: %s" % (h.kind, op, exc, cause))


def op_interrupted_advance(h, m, k):
    """advance(m) during which the k-th posterior evaluation raises; the caller catches the error and keeps the
    sampler.  The exception is (k mod 3) a StopIteration, as raised by a posterior that reads
    from an exhausted iterator, the harness' own InjectedFailure, or an InjectedInterrupt (a KeyboardInterrupt: the user
    presses Ctrl-C during a long run and keeps the sampler).  Returns True if the failure fired and reached the caller,
    False if the run needed fewer than k evaluations, "swallowed" if it fired but advance() returned normally."""
    c = rctx.get()
    exc_type = (StopIteration, rctx.InjectedFailure, rctx.InjectedInterrupt)[int(k) % 3]
    c.eval_failures[h.target.tag] = (int(k), exc_type)
    fired0 = c.stats["fault_posterior_raised_mid_operation"]
    try:
        op_advance(h, m)
        return "swallowed" if c.stats["fault_posterior_raised_mid_operation"] > fired0 else False
    except (rctx.InjectedFailure, rctx.InjectedInterrupt):
        if exc_type is rctx.InjectedInterrupt:
            c.stats["fault_keyboard_interrupt_mid_operation"] += 1
        return True
    except LibRaised as e:
        if isinstance(e.exc, StopIteration) and c.stats["fault_posterior_raised_mid_operation"] > fired0:
            return True
        raise
    finally:
        c.eval_failures[h.target.tag] = None


def op_limits(h, i, mode, seed):
    """Limits changed on a live Gibbs-family chain (public set_boundaries / set_non_negative), possibly after it has moved
    and possibly to an interval that does not contain the chain's current value (the call is accepted by the library;
    what was recorded stays recorded).  Keeps `h.limits` (used to fold exchanged points) up to date.
    Returns the kind of change made, or None for sampler classes without these calls."""
    if h.kind not in ("gibbs", "metropolis"):
        return None
    i = int(i) % h.d
    g = np.random.Generator(np.random.PCG64([int(seed), 23]))
    S, _ = h.rows()
    cur = float(S[-1, i])
    bnd, nn = h._bnd, h._nn
    w = float(10.0 ** g.uniform(-1.0, 1.0))
    if mode == "around":
        lo = cur - w * float(g.uniform(0.05, 0.95))
        lib_call("set_boundaries", h.chain.set_boundaries, i, (lo, lo + w))
        bnd[i] = (lo, lo + w)
    elif mode == "away":
        lo = cur + w * float(g.uniform(0.1, 1.5)) if g.random() < 0.5 else cur - w * float(g.uniform(1.1, 2.5))
        if i in nn:
            lo = max(lo, 0.0)
        lib_call("set_boundaries", h.chain.set_boundaries, i, (lo, lo + w))
        bnd[i] = (lo, lo + w)
        rctx.get().stats["fault_limits_set_away_from_the_current_value"] += 1
    elif mode == "remove":
        lib_call("set_boundaries", h.chain.set_boundaries, i, None, remove=True)
        bnd.pop(i, None)
    elif mode == "nonneg":
        lib_call("set_non_negative", h.chain.set_non_negative, i, True)
        nn.add(i)
    else:
        lib_call("set_non_negative", h.chain.set_non_negative, i, False)
        nn.discard(i)
    lo, hi = bnd.get(i, (-np.inf, np.inf))
    if i in nn:
        lo = max(lo, 0.0)
    if np.isfinite(lo) or np.isfinite(hi):
        h.limits[i] = [lo, hi]
    else:
        h.limits.pop(i, None)
    return mode


def op_exchange(h, position, L, copy=True):
    """Install a foreign point through the real worker loop (`tempering_process`) fed by
    a scripted connection: update_position followed by send_position."""
    from inference.mcmc.parallel import tempering_process

    class Conn:
        def __init__(self):
            self.msgs = [{"task": "update_position", "position": np.array(position, dtype=float) if copy else position,
                          "probability": float(L)},
                         {"task": "send_position"}]
            self.reply = None
            self.polls = 0

        def poll(self, timeout=None):
            self.polls += 1
            if self.polls > 1000:
                raise RuntimeError("scripted connection polled without progress")
            return bool(self.msgs)

        def recv(self):
            return self.msgs.pop(0)

        def send(self, obj):
            self.reply = obj

    class Ev:
        def __init__(self, conn):
            self.conn = conn

        def is_set(self):
            return self.conn.reply is not None

    conn = Conn()
    lib_call("worker loop (update_position)", tempering_process, h.chain, conn, Ev(conn))
    return conn.reply


def scratch_dir():
    base = os.environ.get("VERIF_SCRATCH") or os.path.join(tempfile.gettempdir(), "verif-scratch-%d" % os.getpid())
    os.makedirs(base, exist_ok=True)
    return base


def op_restart(h, tag="r", twin=False):
    """Crash-restart: only the .npz survives.  The successor gets generators created
    under the same namespace; the caller synchronises their state.  With twin=True the same file is
    loaded a second time afterwards (own target, own generators): returns (old chain, twin chain)."""
    fn = os.path.join(scratch_dir(), "%s-%s.npz" % (h.label, tag))
    if os.path.exists(fn):
        os.remove(fn)
    if h.kind == "hmc" and (h.cfg["seed"] + len(tag)) % 3 == 0:
        lib_call("save(compressed=True)", h.chain.save, fn, compressed=True)  # HamiltonianChain's optional compressed format
    else:
        lib_call("save", h.chain.save, fn)
    if not os.path.exists(fn):
        raise LibRaised("save", FileNotFoundError("save() did not create %s" % fn))
    old = h.chain
    c = rctx.get()
    c.namespace = (h.label + "'", h.seed_group)
    try:
        h.chain = lib_call("load", build.load_chain, h.kind, fn, h.target,
                           finite_diff=bool(h.cfg["knobs"].get("finite_diff")))
        tw = None
        if twin:
            c.namespace = (h.label + "~" + tag, h.seed_group ^ 0x5A5A5A)
            tw = lib_call("load (second time)", build.load_chain, h.kind, fn,
                          targets.make_target(h.cfg["target"], tag=h.label + "~" + tag),
                          finite_diff=bool(h.cfg["knobs"].get("finite_diff")))
    finally:
        c.namespace = None
        try:
            os.remove(fn)
        except OSError:
            pass
    return (old, tw) if twin else old


def twin_step(h, tw):
    """A second sampler restored from the same file goes on living next to h: one step of it (its failures are
    its own business).  Returns False when it can no longer step."""
    c = rctx.get()
    tag = tw.posterior.tag
    c.eval_budgets[tag] = 20_000
    was = c.record
    c.record = False
    try:
        if h.is_ensemble:
            tw.advance(1)
        else:
            _guard_hmc(tw.take_step)
        return True
    except (StepExhausted, rctx.Runaway, Exception):  # noqa
        return False
    finally:
        c.record = was
        c.eval_budgets[tag] = None


def cleanup_scratch():
    shutil.rmtree(scratch_dir(), ignore_errors=True)


def new_stats():
    return collections.Counter()
